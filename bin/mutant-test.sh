#!/bin/bash
# Development helper: applies a patch to a scratch worktree of /repo, runs the baseline
# tests there and then the named checks against it (VERIF_REPO). Removes the worktree.
# usage: mutant-test.sh <patch.diff> <tier> <ID> [<ID>...]
set -uo pipefail
PATCH="$(readlink -f "$1")"; TIER="$2"; shift 2
W=$(mktemp -d /tmp/mut-XXXXXX)
git -C /repo worktree add -q --detach "$W" HEAD || exit 2
cleanup() { git -C /repo worktree remove --force "$W" >/dev/null 2>&1; rm -rf "$W"; }
trap cleanup EXIT
if ! git -C "$W" apply "$PATCH"; then echo "PATCH DOES NOT APPLY"; exit 2; fi
"$(dirname "$0")/baseline.sh" "$W" | tail -3
for ID in "$@"; do
  out=$(VERIF_REPO="$W" VERIF_EVIDENCE_SKIP=1 "$(dirname "$0")/check" "$ID" --tier "$TIER" --replay /dev/null 2>&1)
  echo "== $ID exit=$? =="
  echo "$out" | grep -E "VIOLATION|HARNESS|BUILD-FAILED|KNOWN-FINDING-GONE|tier=" | cut -c1-300 | head -8
done
rm -rf /verif/replays/*/ 2>/dev/null
