#!/bin/bash
# runs every check at the given tier (default quick) against /repo and prints one line per check
cd "$(dirname "$0")/.."
TIER="${1:-quick}"
for i in C01 C02 C03 C04 C05 C06 C07 C08 C09 C10 C11 C12 C13 C14 C15 C16 C17 C18 C19 C20; do
  s=$(date +%s.%N)
  out=$(timeout 3600 bin/check $i --tier "$TIER" 2>&1); rc=$?
  e=$(date +%s.%N)
  printf "%s rc=%d %.1fs %s\n" "$i" "$rc" "$(echo "$e - $s" | bc)" "$(echo "$out" | grep -E 'tier=' | tail -1 | cut -c1-160)"
  echo "$out" | grep -E "VIOLATION|HARNESS|SEAM-INVALID|BUILD-FAILED" | head -3 | cut -c1-300
done
