#!/usr/bin/env python3
"""Regenerates MANIFEST.json from the table below (kept valid at all times)."""
import json, os
root = os.path.dirname(os.path.dirname(os.path.abspath(__file__)))
ALL = ["C%02d" % i for i in range(1, 21)]
# id -> (technique, level text, level note, design_ref)
BUILT = {
 "C03": ("stateless deviation-bounded DFS over map-iteration schedules (source-level seam: every `range <map>` of the working tree rewritten to a scheduler-controlled iterator) on the real parser/assembler/format/update/compare code; fresh-process cross-check",
         "L1: every line of <=4/5 tokens over the 16-token directive alphabet is parsed under every schedule that lets any directive pattern be tried first; L2: every program of <=2/3 lines over the line menu x {generate, format, format --check, update, compare} under every map order with <=1..3 deviations from canonical order; all observations (stdout, outcome, resulting files) must be a single value. Exhaustive within the stated deviation bounds.",
         "Map iteration is the only scheduling nondeterminism on these paths; every explored order is one the Go spec allows; third-party packages not instrumented; one schedule is replayed twice before any alarm; hash-seed dependence is additionally sampled by fresh processes whose outcome must lie in the explored set.",
         "DESIGN.md §2.4, §3 C03"),
 "C04": ("explicit-state product-automaton search (language inclusion of the reference expansion in the generated regex) over an exhaustively enumerated word x shell x template x configuration space",
         "Every command word of <=3/4 characters over {a,b,1,.,-,_,space} with every ending, in unix and windows blocks, in 4 templates, under 8 toolchain.yaml variants (CRS-like, block scalars needing trimming, literals, empty, partial, absent, invalid, directory) is compiled by the real code (configuration reloaded from disk each time) and the language of its reference expansion - all evasion strings at once - is decided to be included in the output.",
         "Expected patterns per configuration known to the generator; inclusion not equality; witnesses re-validated with Go regexp; CLI conformance on the single-character lower bound.",
         "DESIGN.md §3 C04"),
 "C01": ("explicit-state product-automaton search (language equivalence of generated regex vs. reference model) over an exhaustively enumerated bounded program space; shrinking; CLI conformance replay",
         "Every program of the bounded strata (single entries <=3/4 tokens over 30 tokens, ordered pairs of entries <=2 tokens, triples, all well-formed structural bodies of <=5/6 lines, rewritten entries at 6 structural positions, x flag/prefix/suffix headers) is compiled by the real assembler and its output is decided language-equal (contextual full-match equivalence, all strings at once) to the plain reading by searching the product of the two NFAs. Bounded-exhaustive in programs, complete in subject strings.",
         "Reference model ref.Plain; regexp/syntax compilation as NFA semantics; every counterexample string re-validated with Go's regexp engine; in-process seam validated against the real CLI on the complete lower bound each run.",
         "DESIGN.md §3 C01, §2.5"),
 "C02": ("exhaustive enumeration of a bounded program space on the real assembler with a token-level lexer oracle on the output; update/read-back replay through the real CLI",
         "Every compiling program of the C01 strata A and C over an alphabet extended with quotes, backslashes, control bytes, DEL and non-ASCII is generated and the output is lexed against each pasting clause (printable one-liner, escaped quotes, no \\\\, \\s with \\x0b, sorted leading flags only, no inline flag group, parses as RE2); the complete lower bound is also written by `regex update` and compared byte for byte.",
         "The lexer states only what the property states; control characters as engine escapes (\\t) are accepted.",
         "DESIGN.md §3 C02"),
 "C19": ("exhaustive enumeration of all token strings / line programs up to a length bound on the real assembler (in-process, process-sharded), outcome classification, CLI conformance replay",
         "Every input of <=4 (quick) / <=5 (thorough) tokens over a 36-token alphabet and every program of <=3 / <=4 lines over a 54-line alphabet is executed on the real parser+assembler, on stdin and as an included file; a runtime fault or a watchdog timeout anywhere in that space is a violation. Bounded-exhaustive: nothing outside the alphabets/lengths is claimed.",
         "Patched zerolog (Fatal panics instead of exiting) in the in-process worker only; equivalence with the real CLI validated on all <=2-token inputs and all single lines on every run; every runtime fault is re-confirmed 5x through the unmodified CLI before it is reported.",
         "DESIGN.md §3 C19"),
}
checks = []
for pid in ALL:
    if pid not in BUILT: continue
    tech, text, note, ref = BUILT[pid]
    checks.append({
        "property_id": pid,
        "quick_cmd": f"bin/check {pid} --tier quick",
        "thorough_cmd": f"bin/check {pid} --tier thorough",
        "evidence_file": f"/verif/evidence/{pid}.json",
        "replay_cmd_template": f"bin/check {pid} --replay {{path}}",
        "engine": "vtool",
        "level_claimed": {"category": "model_checking", "text": text, "design_ref": ref},
        "level_note": note,
        "technique": tech,
    })
m = {
 "version": 1,
 "setup_cmd": "bin/setup.sh",
 "hooks": {
   "guard": "verif",
   "enable": "no hook is committed in /repo: checks build /repo's working tree with `go build -tags verif -overlay .build/overlay.json`, the overlay adds the harness packages (zz_verif/...), export shims (//go:build verif), a patched zerolog and, for schedule exploration, map-range instrumented copies generated from the working tree",
   "baseline_off_cmd": "bin/baseline.sh /repo",
   "source_commits": [],
   "add_only": True,
 },
 "engines": [
   {"name": "vtool", "path": "/verif/src", "serves_properties": [c["property_id"] for c in checks],
    "kind_free_text": "hand-written bounded-exhaustive explorer in Go (stateless DFS with deviation bounding over map-iteration schedules and environment faults, explicit-state BFS over command histories, product-automaton search for regex language equivalence), compiled into the repository's module through a build overlay"},
 ],
 "checks": checks,
 "not_applicable": [{"property_id": p, "reason": "check not built yet in this round; planned per DESIGN.md §3/§10"} for p in ALL if p not in BUILT],
 "notes": "All checks rebuild from /repo's working tree on every invocation (bin/check runs bin/build.sh first). Known findings: known_findings.json. Seeded breaking changes: seeded/.",
}
json.dump(m, open(os.path.join(root, "MANIFEST.json"), "w"), indent=1)
print("claimed:", [c["property_id"] for c in checks])
