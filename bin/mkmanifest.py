#!/usr/bin/env python3
"""Regenerates MANIFEST.json from the table below (kept valid at all times)."""
import json, os
root = os.path.dirname(os.path.dirname(os.path.abspath(__file__)))
ALL = ["C%02d" % i for i in range(1, 21)]
# id -> (technique, level text, level note, design_ref)
BUILT = {
 "C09": ("explicit-state exploration of the format state machine x -> F(x) -> F2 -> F3 with --check at each stage over an exhaustively enumerated file space, on the real processFile; layout predicate; CLI conformance replay",
         "All files of <=3/4 lines over 31 line kinds (blank/space/TAB lines, comments, entries with leading/trailing blanks, every directive in normal and odd spacing, markers, header lines, upper-case class) x LF/CRLF x final newline x header present/absent/without blank, plus empty and white-space-only files: idempotence over three applications, --check never writes (content, inode, mtime), --check succeeds iff format is the identity (modulo the upper-case lint), canonical layout of every successful output.",
         "In-process processFile validated against the real CLI on the complete <=2-line space; layout predicate states only what the property states.",
         "DESIGN.md §3 C09"),
 "C10": ("exhaustive enumeration of the format file space plus directive look-alikes; per file the real formatter's output is compared as white-space-free line sequence and by the set of generate outcomes under deviation-bounded map schedules",
         "All files of <=2/3 lines over 54 line kinds (C09's plus comments that look like directives, extra arguments, glued keywords, stray markers, upper-case/unsupported flags) x variants: format must preserve the line sequence modulo white space/added header/trailing blanks and generate must give the same set of outcomes (regex bytes or failure) before and after, over every map order with <=1 deviation.",
         "'Same failure' means fails before and after; diagnostics not compared.",
         "DESIGN.md §3 C10"),
 "C08": ("explicit-state BFS over all orders of single-file CLI invocations (state = processed set + whole tree + reports) compared with the state after one --all run, for an exhaustively enumerated family of CRS trees",
         "All ordered selections of <=2/3 of 11 file archetypes (shared stored name, unstored use, shared definition name, undefined reference, flags/prefix/suffix, open block, chain link, same-id chain link, include helper, include with leaking definition) form a tree; for update, compare and format every order of single invocations is explored with the real CLI and must reach one terminal state equal to the --all state; compare reports equal as multisets; a file failing alone must make --all fail.",
         "For trees with a failing file update --all may be all-or-nothing or equal to the single invocations (both readings accepted).",
         "DESIGN.md §3 C08"),
 "C15": ("exhaustive enumeration of decoy subsets x commands x root-naming modes with the real CLI in a snapshotted sandbox (path, type, mode, size, sha256, mtime, inode)",
         "16 (quick) / all 128 (thorough) subsets of 7 decoy groups x 34 commands x 4 ways of naming the root: inspecting commands must leave the whole sandbox (root, sibling root, parent directory, HOME, TMPDIR) bit- and mtime-identical; rewriting commands may modify only paths in their target set and never create or delete.",
         "Writes outside the sandbox directory are not observed (HOME/TMPDIR are redirected into it).",
         "DESIGN.md §3 C15"),
 "C16": ("single-fault (1-deviation) enumeration: every listed fault class planted at every position of an otherwise valid tree, every command for which it is a fault, executed with the real CLI; snapshot oracle",
         "14 assembly-side faults x {top level, in a block, in an include} x {generate, generate -, update, compare, compare github, update/compare --all with the fault in the first/middle/last file, format}, 6 rule-side faults x single/--all, malformed arguments, missing files, invalid versions, unknown test files: exit status must be non-zero, no regex on stdout, tree byte-identical; converse check on the fault-free tree.",
         "For format --all only the file that cannot be formatted must stay unchanged (each file is its own request).",
         "DESIGN.md §3 C16"),
 "C18": ("exhaustive enumeration of argument strings around the grammar and of start directories, executed with the real CLI against a self-describing tree; reference grammar model",
         "3 digit lengths x 19 chain parts x 6 extensions (+ decorations) x {generate, update, compare, format}: every spelled file exists and contains its own name, rule 123456 has three chained links with distinct operands, so output and changed line reveal the file and offset used; rejected shapes must fail without effect; generate FILE = generate - of the same bytes; 17 start directories x 5 ways of passing them against a tree with nested roots; --all over grammar and non-grammar names.",
         "refArg is the grammar of the statement; without -d the working directory itself is the root.",
         "DESIGN.md §3 C18"),
 "C05": ("differential exploration: including program vs. hand-inlined program (reference model) generated by the real code under deviation-bounded map-iteration schedules; product-automaton language comparison",
         "Full cross product of 16 include files (plain, messy, prefix, suffix, both, own/same/leaking definitions, outer reference, depth 2/3, empty, with block, same name in both directories, exclude-only, with flags) x 7 positions x 2 spellings x 3 includer headers; each including program and its hand-inlined counterpart are generated under every map order with <=1 (all ranges) / <=2 (non-classification ranges) deviations and must be language-equal or fail together; flags in an include must be rejected.",
         "Reference model ref.Inline; B contains no include so the comparison isolates the include mechanism; CLI conformance on every including program.",
         "DESIGN.md §3 C05"),
 "C06": ("exhaustive enumeration of include/exclude/pair-list triples with a reference set-difference/rewrite model; deviation-bounded map-schedule exploration on the real code; product-automaton comparison",
         "All include files of <=2/3 lines over an 8-line alphabet (duplicates, blanks, comments, definition reference, pair key in the middle and at the end), include files with prefix/suffix, x exclude sets (none, empty, 1-2 words, two files) x 7 pair lists (incl. chains and overlapping keys): the directive's result must be one outcome over all explored map orders and byte-identical (no duplicates) or language-equal to the hand-made program.",
         "Where several pairs match one entry every priority order is accepted (statement silent); line-classification order excluded from the scheduled sites here (C03 covers it).",
         "DESIGN.md §3 C06"),
 "C07": ("exhaustive enumeration of acyclic definition graphs x permutations x placements with byte comparison against the hand-expanded program, under deviation-bounded (and for selected programs complete) exploration of the definition-map iteration orders",
         "All acyclic sets of <=2/3 definitions over 3 names x 7 values (metacharacters, quantifier braces, nested references), every permutation of the definition lines, 10 reference bodies (entry start/middle/end/twice, prefix, suffix, block, included text, undefined name, cmdline), 4 placements: generate must be byte-identical to the hand-expanded program under every explored order of the three definition map ranges.",
         "Byte equality sound because both programs feed the assembler the same lines; only expandDefinitions map ranges are scheduled.",
         "DESIGN.md §3 C07"),
 "C03": ("stateless deviation-bounded DFS over map-iteration schedules (source-level seam: every `range <map>` of the working tree rewritten to a scheduler-controlled iterator) on the real parser/assembler/format/update/compare code; fresh-process cross-check",
         "L1: every line of <=4/5 tokens over the 16-token directive alphabet is parsed under every schedule that lets any directive pattern be tried first; L2: every program of <=2/3 lines over the line menu x {generate, format, format --check, update, compare} under every map order with <=1..3 deviations from canonical order; all observations (stdout, outcome, resulting files) must be a single value. Exhaustive within the stated deviation bounds.",
         "Map iteration is the only scheduling nondeterminism on these paths; every explored order is one the Go spec allows; third-party packages not instrumented; one schedule is replayed twice before any alarm; hash-seed dependence is additionally sampled by fresh processes whose outcome must lie in the explored set.",
         "DESIGN.md §2.4, §3 C03"),
 "C04": ("explicit-state product-automaton search (language inclusion of the reference expansion in the generated regex) over an exhaustively enumerated word x shell x template x configuration space",
         "Every command word of <=3/4 characters over {a,b,1,.,-,_,space} with every ending, in unix and windows blocks, in 4 templates, under 8 toolchain.yaml variants (CRS-like, block scalars needing trimming, literals, empty, partial, absent, invalid, directory) is compiled by the real code (configuration reloaded from disk each time) and the language of its reference expansion - all evasion strings at once - is decided to be included in the output.",
         "Expected patterns per configuration known to the generator; inclusion not equality; witnesses re-validated with Go regexp; CLI conformance on the single-character lower bound.",
         "DESIGN.md §3 C04"),
 "C01": ("explicit-state product-automaton search (language equivalence of generated regex vs. reference model) over an exhaustively enumerated bounded program space; shrinking; CLI conformance replay",
         "Every program of the bounded strata (single entries <=3/4 tokens over 30 tokens, ordered pairs of entries <=2 tokens, triples, all well-formed structural bodies of <=5/6 lines, rewritten entries at 6 structural positions, x flag/prefix/suffix headers) is compiled by the real assembler and its output is decided language-equal (contextual full-match equivalence, all strings at once) to the plain reading by searching the product of the two NFAs. Bounded-exhaustive in programs, complete in subject strings.",
         "Reference model ref.Plain; regexp/syntax compilation as NFA semantics; every counterexample string re-validated with Go's regexp engine; in-process seam validated against the real CLI on the complete lower bound each run.",
         "DESIGN.md §3 C01, §2.5"),
 "C02": ("exhaustive enumeration of a bounded program space on the real assembler with a token-level lexer oracle on the output; update/read-back replay through the real CLI",
         "Every compiling program of the C01 strata A and C over an alphabet extended with quotes, backslashes, control bytes, DEL and non-ASCII is generated and the output is lexed against each pasting clause (printable one-liner, escaped quotes, no \\\\, \\s with \\x0b, sorted leading flags only, no inline flag group, parses as RE2); the complete lower bound is also written by `regex update` and compared byte for byte.",
         "The lexer states only what the property states; control characters as engine escapes (\\t) are accepted.",
         "DESIGN.md §3 C02"),
 "C19": ("exhaustive enumeration of all token strings / line programs up to a length bound on the real assembler (in-process, process-sharded), outcome classification, CLI conformance replay",
         "Every input of <=4 (quick) / <=5 (thorough) tokens over a 36-token alphabet and every program of <=3 / <=4 lines over a 54-line alphabet is executed on the real parser+assembler, on stdin and as an included file; a runtime fault or a watchdog timeout anywhere in that space is a violation. Bounded-exhaustive: nothing outside the alphabets/lengths is claimed.",
         "Patched zerolog (Fatal panics instead of exiting) in the in-process worker only; equivalence with the real CLI validated on all <=2-token inputs and all single lines on every run; every runtime fault is re-confirmed 5x through the unmodified CLI before it is reported.",
         "DESIGN.md §3 C19"),
}
checks = []
for pid in ALL:
    if pid not in BUILT: continue
    tech, text, note, ref = BUILT[pid]
    checks.append({
        "property_id": pid,
        "quick_cmd": f"bin/check {pid} --tier quick",
        "thorough_cmd": f"bin/check {pid} --tier thorough",
        "evidence_file": f"/verif/evidence/{pid}.json",
        "replay_cmd_template": f"bin/check {pid} --replay {{path}}",
        "engine": "vtool",
        "level_claimed": {"category": "model_checking", "text": text, "design_ref": ref},
        "level_note": note,
        "technique": tech,
    })
m = {
 "version": 1,
 "setup_cmd": "bin/setup.sh",
 "hooks": {
   "guard": "verif",
   "enable": "no hook is committed in /repo: checks build /repo's working tree with `go build -tags verif -overlay .build/overlay.json`, the overlay adds the harness packages (zz_verif/...), export shims (//go:build verif), a patched zerolog and, for schedule exploration, map-range instrumented copies generated from the working tree",
   "baseline_off_cmd": "bin/baseline.sh /repo",
   "source_commits": [],
   "add_only": True,
 },
 "engines": [
   {"name": "vtool", "path": "/verif/src", "serves_properties": [c["property_id"] for c in checks],
    "kind_free_text": "hand-written bounded-exhaustive explorer in Go (stateless DFS with deviation bounding over map-iteration schedules and environment faults, explicit-state BFS over command histories, product-automaton search for regex language equivalence), compiled into the repository's module through a build overlay"},
 ],
 "checks": checks,
 "not_applicable": [{"property_id": p, "reason": "check not built yet in this round; planned per DESIGN.md §3/§10"} for p in ALL if p not in BUILT],
 "notes": "All checks rebuild from /repo's working tree on every invocation (bin/check runs bin/build.sh first). Known findings: known_findings.json. Seeded breaking changes: seeded/.",
}
json.dump(m, open(os.path.join(root, "MANIFEST.json"), "w"), indent=1)
print("claimed:", [c["property_id"] for c in checks])
