#!/usr/bin/env python3
"""Development helper: regenerates the section of DESIGN.md between the markers
<!-- BOUNDS:BEGIN --> and <!-- BOUNDS:END --> from the committed evidence files (what each check explored
when it last ran on /repo)."""
import json, os, re
root = os.path.dirname(os.path.dirname(os.path.abspath(__file__)))
rows = []
for i in range(1, 21):
    pid = "C%02d" % i
    e = json.load(open(f"{root}/evidence/{pid}.json"))
    c = e["coverage"]
    num = lambda k: f"{c.get(k):,}" if isinstance(c.get(k), int) else str(c.get(k, "-"))
    rows.append(f"### {pid} ({e['tier']} tier, {e.get('wall_s', 0):.0f} s)\n\n"
                f"* explored: {num('evaluations')} evaluations, {num('states')} states, {num('transitions')} transitions, "
                f"{num('distinct_nontrivial')} non-trivial, {num('traces_validated_against_impl')} replayed through the real CLI / binary, exhaustive within the bound: {c.get('exhaustive')}\n"
                f"* bound: `{json.dumps(c.get('bound'), ensure_ascii=False)[:1500]}`\n"
                f"* rule: {c.get('rule', '')}\n")
text = "<!-- BOUNDS:BEGIN -->\n" + "\n".join(rows) + "<!-- BOUNDS:END -->"
p = f"{root}/DESIGN.md"
s = open(p).read()
if "<!-- BOUNDS:BEGIN -->" in s:
    s = re.sub(r"<!-- BOUNDS:BEGIN -->.*<!-- BOUNDS:END -->", lambda m: text, s, flags=re.S)
else:
    raise SystemExit("markers missing")
open(p, "w").write(s)
print("ok")
