#!/bin/bash
# Rebuilds everything the checks need from /repo's current working tree.
# usage: build.sh [sched]   (sched: also build the map-range instrumented vtool-sched)
set -euo pipefail
. "$(dirname "$0")/env.sh"
B="$VERIF_ROOT/.build"
cd "$VERIF_REPO"
# plain CLI, exactly the repository code (guard tag on, no overlay)
go build -tags verif -o "$B/crs" . 
python3 "$VERIF_ROOT/bin/mkoverlay.py" "$B/overlay.json"
go build -tags verif -overlay "$B/overlay.json" -o "$B/vtool" ./zz_verif/vt
if [ "${1:-}" = sched ]; then
  "$VERIF_ROOT/bin/build-sched.sh"
fi
