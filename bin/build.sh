#!/bin/bash
# Rebuilds everything the checks need from /repo's current working tree.
# usage: build.sh [sched] [su]   (sched: the map-range instrumented vtool-sched; su: the self-update binaries)
set -euo pipefail
. "$(dirname "$0")/env.sh"
B="$VERIF_BUILD"
cd "$VERIF_REPO"
# plain CLI, exactly the repository code (guard tag on, no overlay)
go build -tags verif -o "$B/crs" . 
python3 "$VERIF_ROOT/bin/mkoverlay.py" "$B/overlay.json"
WANT=" $* "
# self-update binaries: the repository code plus the fake transport, one per running version
python3 - "$B/overlay-su.json" <<PY
import json,sys,os
repo=os.environ["VERIF_REPO"]; root=os.environ["VERIF_ROOT"]
json.dump({"Replace":{repo+"/internal/updater/zz_verif_transport.go": root+"/shims/internal__updater/zz_verif_transport.go"}}, open(sys.argv[1],"w"))
PY
if [[ "$WANT" == *" su "* ]]; then
  go build -tags verif -overlay "$B/overlay-su.json" -ldflags "-X main.version=2.0.0" -o "$B/crs-su-2.0.0" .
  go build -tags verif -overlay "$B/overlay-su.json" -o "$B/crs-su-dev" .
  go build -tags verif -overlay "$B/overlay-su.json" -ldflags "-X main.version=v2.5.0-rc.1" -o "$B/crs-su-2.5.0-rc.1" .
  go build -tags verif -overlay "$B/overlay-su.json" -ldflags "-X main.version=v10.1.0" -o "$B/crs-su-10.1.0" .
fi
if [[ "$WANT" == *" sched "* ]]; then
  "$VERIF_ROOT/bin/build-sched.sh"
fi
