#!/bin/bash
# setup_cmd: offline build of the framework and warm-up of the Go build cache.
set -euo pipefail
cd "$(dirname "$0")/.."
. bin/env.sh
bin/build.sh sched su
echo "setup ok"
