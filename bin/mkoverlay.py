#!/usr/bin/env python3
"""Generate the go build overlay: virtual packages /repo/zz_verif/<pkg> from
/verif/src/<pkg>, shim files added to existing repo packages, patched zerolog.
With --sched, additionally map instrumented copies of repo files (map-range seam)."""
import json, os, sys, subprocess, re, glob
root = os.environ["VERIF_ROOT"]; repo = os.environ["VERIF_REPO"]
out = sys.argv[1]; sched = "--sched" in sys.argv
rep = {}
for d in sorted(os.listdir(f"{root}/src")):
    for f in sorted(glob.glob(f"{root}/src/{d}/*.go")):
        rep[f"{repo}/zz_verif/{d}/{os.path.basename(f)}"] = f
# shims: file name encodes target dir: shims/<dir with __ for />/file.go
for f in sorted(glob.glob(f"{root}/shims/*/*.go")):
    d = os.path.basename(os.path.dirname(f)).replace("__", "/")
    rep[f"{repo}/{d}/{os.path.basename(f)}"] = f
# zerolog patch
modcache = subprocess.check_output(["go", "env", "GOMODCACHE"], text=True).strip()
zl = f"{modcache}/github.com/rs/zerolog@v1.34.0/log.go"
src = open(zl).read()
needle = "\t\tos.Exit(1)\n\t})\n}"
assert src.count(needle) == 1, "zerolog Fatal patch: expected exactly one os.Exit(1) site"
src = src.replace(needle, "\t\tpanic(VerifFatalExit{})\n\t})\n}")
# Fatal closes the log writer (stderr) before exiting; the in-process worker must keep it open
needle2 = "\t\t\tcloser.Close()\n"
assert src.count(needle2) == 1
src = src.replace(needle2, "\t\t\t_ = closer\n")
# Logger.Panic panics with a string; so do library misuse panics (strings.Builder copied by value, ...). Give the
# deliberate diagnostic a type of its own so that the in-process seam can tell them apart.
needle3 = "func(msg string) { panic(msg) }"
assert src.count(needle3) >= 1
src = src.replace(needle3, "func(msg string) { panic(VerifPanic(msg)) }")
src += "\n// VerifPanic is what Logger.Panic panics with in the verif in-process worker build.\ntype VerifPanic string\n"
src += "\n// VerifFatalExit is what Logger.Fatal panics with in the verif in-process worker build.\ntype VerifFatalExit struct{}\n"
src += "\nvar _ = os.Exit\n"
pz = os.environ["VERIF_BUILD"] + "/zerolog_log.go"
open(pz, "w").write(src)
rep[zl] = pz
if sched:
    sd = os.environ["VERIF_BUILD"] + "/sched"
    for f in sorted(glob.glob(f"{sd}/**/*.go", recursive=True)):
        rel = os.path.relpath(f, sd)
        rep[f"{repo}/{rel}"] = f
json.dump({"Replace": rep}, open(out, "w"), indent=1)
