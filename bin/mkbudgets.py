#!/usr/bin/env python3
"""Development helper: regenerates the budget table of DESIGN.md section 8 (between the BUDGETS markers) from the
quick-tier evidence in /verif/evidence and the thorough-tier evidence of a finished `bin/run-all.sh thorough` run
(directory given as argument, default: the newest /root/.vp/runs/*/verif/evidence)."""
import json, glob, os, sys, re
root = os.path.dirname(os.path.dirname(os.path.abspath(__file__)))
tdir = sys.argv[1] if len(sys.argv) > 1 else sorted(glob.glob('/root/.vp/runs/*/verif/evidence'), key=os.path.getmtime)[-1]
def fmt(n):
    n = int(n)
    if n >= 10**6: return f"{n/1e6:.1f} M"
    if n >= 10**4: return f"{n/1e3:.0f} k"
    return str(n)
def cell(e):
    c = e['coverage']
    return f"{e['wall_s']:.0f} s, {fmt(c.get('evaluations',0))} evaluations, {fmt(c.get('states',0))} states, {fmt(c.get('transitions',0))} transitions"
rows = []
for i in range(1, 21):
    pid = f"C{i:02d}"
    q = json.load(open(f"{root}/evidence/{pid}.json"))
    tp = f"{tdir}/{pid}.json"
    t = json.load(open(tp)) if os.path.exists(tp) else None
    tc = cell(t) if t and t.get('tier') == 'thorough' else "(not run)"
    rows.append(f"| {pid} | {cell(q)} | {tc} |")
table = "| check | quick | thorough |\n|---|---|---|\n" + "\n".join(rows) + "\n"
p = f"{root}/DESIGN.md"
s = open(p).read()
a, b = "<!-- BUDGETS:BEGIN -->", "<!-- BUDGETS:END -->"
assert a in s and b in s
s = s[:s.index(a) + len(a)] + "\n" + table + s[s.index(b):]
open(p, 'w').write(s)
print("ok", tdir)
