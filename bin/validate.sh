#!/bin/bash
# validates MANIFEST.json and all evidence files against the schemas
cd "$(dirname "$0")/.."
python3-vt - <<'PY'
import json,jsonschema,glob
jsonschema.validate(json.load(open('MANIFEST.json')), json.load(open('/root/.vp/MANIFEST.schema.json')))
s=json.load(open('/root/.vp/EVIDENCE.schema.json'))
for f in sorted(glob.glob('evidence/*.json')):
    jsonschema.validate(json.load(open(f)), s)
print('manifest + %d evidence files valid' % len(glob.glob('evidence/*.json')))
PY
