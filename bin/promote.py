#!/usr/bin/env python3
"""Development helper (never run by a check): copies the violations currently in
replays/<ID>/ into known_findings.json after manual triage.
usage: promote.py <ID> <substring-of-key-or-clause or ALL> <what...>"""
import json, sys, glob, os
root = os.path.dirname(os.path.dirname(os.path.abspath(__file__)))
pid, sel, what = sys.argv[1], sys.argv[2], " ".join(sys.argv[3:])
kf = json.load(open(f"{root}/known_findings.json"))
have = {(f["property"], f["clause"], f["key"]) for f in kf["findings"]}
n = 0
for f in sorted(glob.glob(f"{root}/replays/{pid}/*.json")):
    v = json.load(open(f))["violation"]
    if sel != "ALL" and sel not in v["key"] and sel not in v["clause"]:
        continue
    k = (pid, v["clause"], v["key"])
    if k in have: continue
    kf["findings"].append({"property": pid, "clause": v["clause"], "key": v["key"], "what": what + " — " + v["what"][:300]})
    n += 1
json.dump(kf, open(f"{root}/known_findings.json", "w"), indent=1, ensure_ascii=False)
print("added", n)
