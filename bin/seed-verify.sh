#!/bin/bash
# Development helper: verifies a seeded breaking change delivered by a sub-agent in
# /tmp/seed-<ID>-scratch (patch.diff + demo) in a FRESH scratch worktree:
#   1. the patch applies and the project builds, 2. the pinned test suite still passes,
#   3. the demonstration fails with the patch and passes without it,
#   4. runs the named checks (default: the property's own) against the patched tree.
# usage: seed-verify.sh <ID> <name> [<tier>] [<check ids>...]
set -uo pipefail
ID="$1"; NAME="$2"; TIER="${3:-quick}"; shift 3 2>/dev/null || shift $#
CHECKS="${*:-$ID}"
S=${SEED_DIR:-/tmp/seed-$ID-scratch}
[ -f "$S/patch.diff" ] || { echo "no $S/patch.diff"; exit 2; }
export GOFLAGS=-mod=mod GOPROXY=off GOSUMDB=off GOTOOLCHAIN=local
W=$(mktemp -d /tmp/seedv-XXXXXX)
git -C /repo worktree add -q --detach "$W" HEAD || exit 2
cleanup() { git -C /repo worktree remove --force "$W" >/dev/null 2>&1; rm -rf "$W"; }
trap cleanup EXIT
echo "== demo WITHOUT the change =="
run_demo() {
  if [ -f "$S/demo.sh" ]; then
    WT=${SEED_WT:-${S%-scratch}}
    (cd "$W" && sed "s#$S#$W.scratch#g; s#$WT-scratch#$W.scratch#g; s#$WT#$W#g" "$S/demo.sh" > "$W.demo.sh" && mkdir -p "$W.scratch" && bash "$W.demo.sh" >"$W.demo.log" 2>&1); rc=$?
  else
    t=$(ls "$S"/*_test.go 2>/dev/null | head -1)
    [ -n "$t" ] || { echo "no demo found"; return 99; }
    pkg=$(grep -m1 '^package ' "$t" | awk '{print $2}')
    dir=$(grep -l "^package $pkg\$" -r "$W" --include=*.go | grep -v _test.go | head -1 | xargs dirname)
    hint=$(grep -m1 -o 'package directory: [^ ]*' "$S/NOTES.md" 2>/dev/null | awk '{print $3}')
    cp "$t" "$dir/zz_seed_demo_test.go"
    name=$(grep -o 'func Test[A-Za-z0-9_]*' "$t" | awk '{print $2}' | paste -sd'|')
    (cd "$dir" && go test -vet=off -count=1 -run "^($name)\$" . >"$W.demo.log" 2>&1); rc=$?
    rm -f "$dir/zz_seed_demo_test.go"
  fi
  tail -3 "$W.demo.log"; echo "demo exit=$rc"; return $rc
}
run_demo; WITHOUT=$?
git -C "$W" apply "$S/patch.diff" || { echo "PATCH DOES NOT APPLY"; exit 2; }
echo "== baseline WITH the change =="
"$(dirname "$0")/baseline.sh" "$W" | tail -4
echo "== demo WITH the change =="
run_demo; WITH=$?
echo "SUMMARY demo without=$WITHOUT with=$WITH"
for C in $CHECKS; do
  out=$(VERIF_REPO="$W" VERIF_EVIDENCE_SKIP=1 "$(dirname "$0")/check" "$C" --tier "$TIER" --replay /dev/null 2>&1)
  echo "== check $C ($TIER) exit=$? =="
  echo "$out" | grep -E "VIOLATION|HARNESS|BUILD-FAILED|tier=" | cut -c1-400 | head -6
done
rm -rf /verif/replays/*/ "$W.scratch" "$W.demo.sh" "$W.demo.log" 2>/dev/null
