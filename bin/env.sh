# sourced by every script: offline Go environment, caches under /verif
export VERIF_ROOT="${VERIF_ROOT:-$(cd "$(dirname "${BASH_SOURCE[0]}")/.." && pwd)}"
export VERIF_REPO="${VERIF_REPO:-/repo}"
export GOFLAGS=-mod=mod GOPROXY=off GOSUMDB=off GOTOOLCHAIN=local
export GOCACHE="$VERIF_ROOT/.cache/go-build"
export CGO_ENABLED=0
export CI=true
unset GITHUB_TOKEN GITHUB_OUTPUT
# one build directory per source tree, so that checks against a scratch copy never disturb the real ones
if [ -z "${VERIF_BUILD:-}" ]; then
  if [ "$VERIF_REPO" = /repo ]; then VERIF_BUILD="$VERIF_ROOT/.build"; else VERIF_BUILD="$VERIF_ROOT/.build-alt/$(echo "$VERIF_REPO" | md5sum | cut -c1-10)"; fi
fi
export VERIF_BUILD
mkdir -p "$VERIF_BUILD" "$VERIF_ROOT/.cache"
