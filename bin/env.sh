# sourced by every script: offline Go environment, caches under /verif
export VERIF_ROOT="${VERIF_ROOT:-$(cd "$(dirname "${BASH_SOURCE[0]}")/.." && pwd)}"
export VERIF_REPO="${VERIF_REPO:-/repo}"
export GOFLAGS=-mod=mod GOPROXY=off GOSUMDB=off GOTOOLCHAIN=local
export GOCACHE="$VERIF_ROOT/.cache/go-build"
export CGO_ENABLED=0
export CI=true
unset GITHUB_TOKEN GITHUB_OUTPUT
mkdir -p "$VERIF_ROOT/.build" "$VERIF_ROOT/.cache"
