#!/bin/bash
# Development aid (not a registered check): which statements of the code under test do the quick checks execute?
# Builds coverage-instrumented copies of vtool-sched and the CLI from a scratch copy of the tree (overlay files
# materialised, because `go build -cover` cannot instrument files that exist only in an overlay), runs the named
# checks (default: all) at the quick tier and prints the uncovered blocks of the repository's own packages.
# usage: coverage.sh [ID...]        output: /tmp/verif-cov/uncovered.txt
set -uo pipefail
. "$(dirname "$0")/env.sh"
"$VERIF_ROOT/bin/build.sh" sched su >/dev/null 2>&1 || { echo "build failed"; exit 2; }
C=/tmp/verif-cov; rm -rf $C; mkdir -p $C/build $C/data $C/src
rsync -a --exclude .git "$VERIF_REPO"/ $C/src/
python3 - "$VERIF_BUILD/overlay-sched.json" "$VERIF_REPO" $C <<'PY'
import json,os,shutil,sys
ov=json.load(open(sys.argv[1]))['Replace']; repo=sys.argv[2].rstrip('/')+'/'; C=sys.argv[3]
rest={}
for dst,src in ov.items():
    if not dst.startswith(repo): rest[dst]=src; continue
    d=C+'/src/'+dst[len(repo):]
    os.makedirs(os.path.dirname(d),exist_ok=True)
    if src=='':
        if os.path.exists(d): os.remove(d)
    else: shutil.copy(src,d)
json.dump({'Replace':rest},open(C+'/build/overlay-rest.json','w'))
PY
PKG=github.com/coreruleset/crs-toolchain/v2
CP=$PKG/cmd,$PKG/regex/...,$PKG/util,$PKG/chore,$PKG/internal/...,$PKG/utils,$PKG/configuration,$PKG/context
(cd $C/src && go build -cover -covermode=set -tags verif -overlay $C/build/overlay-rest.json -o $C/build/vtool-sched ./zz_verif/vt && go build -cover -covermode=set -tags verif -o $C/build/crs .) || exit 2
cp "$VERIF_BUILD"/crs-su-* $C/build/
IDS="${*:-C01 C02 C03 C04 C05 C06 C07 C08 C09 C10 C11 C12 C13 C14 C15 C16 C17 C18 C19}"
cd "$VERIF_ROOT"
for ID in $IDS; do
  VERIF_BUILD=$C/build GOCOVERDIR=$C/data $C/build/vtool-sched check $ID --tier quick --replay /dev/null 2>&1 | tail -1 | cut -c1-150
done
go tool covdata textfmt -i=$C/data -o $C/cover.txt
python3 - $C/cover.txt > $C/uncovered.txt <<'PY'
import sys,collections
cov=collections.defaultdict(int)
for l in open(sys.argv[1]):
    if l.startswith('mode:'): continue
    loc,n,c=l.rsplit(' ',2)
    cov[loc]=max(cov[loc],int(c))
files=collections.defaultdict(list)
for loc,c in cov.items():
    f,r=loc.split(':')
    if 'zz_verif' in f: continue
    files[f].append((r,c))
tot=unc=0
for f in sorted(files):
    u=[r for r,c in files[f] if c==0]
    tot+=len(files[f]); unc+=len(u)
    if u:
        print(f, f"{len(u)}/{len(files[f])} blocks not executed")
        for r in sorted(u,key=lambda r:int(r.split('.')[0])): print('   ',r)
print(f"TOTAL {unc}/{tot} blocks not executed")
PY
tail -1 $C/uncovered.txt
