#!/bin/bash
# Builds vtool-sched: vtool with every map-range of the working tree routed through verifrt.Map.
set -euo pipefail
. "$(dirname "$0")/env.sh"
B="$VERIF_ROOT/.build"
rm -rf "$B/sched"; mkdir -p "$B/sched"
if [ ! -x "$B/maprange" ] || [ "$VERIF_ROOT/tools/maprange/main.go" -nt "$B/maprange" ]; then
  (cd "$VERIF_ROOT/tools/maprange" && GOFLAGS= go build -o "$B/maprange" main.go)
fi
(cd "$VERIF_REPO" && "$B/maprange" "$VERIF_REPO" "$B/sched")
python3 "$VERIF_ROOT/bin/mkoverlay.py" "$B/overlay-sched.json" --sched
cd "$VERIF_REPO"
go build -tags verif -overlay "$B/overlay-sched.json" -o "$B/vtool-sched" ./zz_verif/vt
