#!/bin/bash
# Builds vtool-sched: vtool with every map-range of the working tree routed through verifrt.Map.
set -euo pipefail
. "$(dirname "$0")/env.sh"
B="$VERIF_BUILD"
H=$(cd "$VERIF_REPO" && find . -name '*.go' -not -name '*_test.go' -not -path './.git/*' -type f -print0 | sort -z | xargs -0 sha256sum | sha256sum | cut -c1-16)
if [ -f "$B/sched/HASH" ] && [ "$(cat "$B/sched/HASH")" = "$H" ] && [ -x "$B/maprange" ]; then
  REWRITE=0
else
  REWRITE=1
  rm -rf "$B/sched"; mkdir -p "$B/sched"
fi
if [ ! -x "$B/maprange" ] || [ "$VERIF_ROOT/tools/maprange/main.go" -nt "$B/maprange" ]; then
  (cd "$VERIF_ROOT/tools/maprange" && GOFLAGS= go build -o "$B/maprange" main.go)
fi
if [ "$REWRITE" = 1 ]; then
  (cd "$VERIF_REPO" && "$B/maprange" "$VERIF_REPO" "$B/sched")
  echo "$H" > "$B/sched/HASH"
fi
python3 "$VERIF_ROOT/bin/mkoverlay.py" "$B/overlay-sched.json" --sched
cd "$VERIF_REPO"
if ! go build -tags verif -overlay "$B/overlay-sched.json" -o "$B/vtool-sched" ./zz_verif/vt 2>"$B/shim-build.err"; then
  # a private function wrapped by the export shim was renamed or re-typed: build without the shim,
  # the command-level seams then go through the real CLI (inproc.ShimAvailable = false)
  echo "NOTE: export shim does not compile against this tree, building the fallback (verif_noshim)"; head -5 "$B/shim-build.err"
  go build -tags "verif verif_noshim" -overlay "$B/overlay-sched.json" -o "$B/vtool-sched" ./zz_verif/vt
fi
