#!/bin/bash
set -euo pipefail
. "$(dirname "$0")/env.sh"
echo "sched build: not yet implemented"
