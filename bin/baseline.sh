#!/bin/bash
# Runs the repository's pinned test suite (guard tag OFF) in DIR (default /repo) and
# compares the set of passing tests with /root/.vp/BASELINE.json stable_pass.
DIR="${1:-/repo}"
export GOFLAGS=-mod=mod GOPROXY=off GOSUMDB=off GOTOOLCHAIN=local
cd "$DIR" && go build ./... || { echo "BUILD FAILED"; exit 1; }
go test -mod=mod -json -vet=off -count=1 -timeout 25m ./... 2>/dev/null | python3 -c '
import json,sys
base=set(json.load(open("/root/.vp/BASELINE.json"))["stable_pass"])
ok=set()
for l in sys.stdin:
    try: e=json.loads(l)
    except: continue
    if e.get("Action")=="pass" and e.get("Test"):
        ok.add(e["Package"]+"::"+e["Test"])
missing=sorted(base-ok)
print("baseline tests passing: %d/%d" % (len(base&ok), len(base)))
for m in missing[:8]: print("  MISSING", m)
if len(missing) > 8: print("  ... %d more" % (len(missing)-8))
sys.exit(1 if missing else 0)
'
