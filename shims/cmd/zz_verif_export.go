//go:build verif && !verif_noshim

// Exported one-line wrappers around private seams of package cmd, added to the
// build by the /verif overlay only (never committed to the repository).
package cmd

import (
	"github.com/coreruleset/crs-toolchain/v2/regex/processors"
)

// VerifSetRoot sets what `-d` would have resolved to (runAssemble reads it from rootValues).
func VerifSetRoot(dir string, github bool) {
	rootValues.workingDirectory = workingDirectory(dir)
	rootValues.configurationFileName = configurationFileName("toolchain.yaml")
	if github {
		rootValues.output = gitHub
	} else {
		rootValues.output = text
	}
}

// VerifParseRuleId runs the argument parser and returns what it stored.
func VerifParseRuleId(arg string) (id, fileName string, chainOffset uint8, err error) {
	ruleValues.id, ruleValues.fileName, ruleValues.chainOffset, ruleValues.useStdin = "", "", 0, false
	err = parseRuleId(arg)
	return ruleValues.id, ruleValues.fileName, ruleValues.chainOffset, err
}

func VerifProcessFile(filePath string, ctxt *processors.Context, checkOnly bool) error {
	return processFile(filePath, ctxt, checkOnly)
}

func VerifFormatAll(ctxt *processors.Context, checkOnly bool) error { return processAll(ctxt, checkOnly) }

func VerifProcessLine(line []byte, indent int) ([]byte, int, error) { return processLine(line, indent) }

func VerifUpdateRegex(filePath, ruleId string, chainOffset uint8, newRegex string) {
	updateRegex(filePath, ruleId, chainOffset, newRegex, false)
}

func VerifReadCurrentRegex(filePath, ruleId string, chainOffset uint8) string {
	return readCurrentRegex(filePath, ruleId, chainOffset)
}

func VerifPerformUpdate(all bool, ctx *processors.Context) { performUpdate(all, ctx) }

func VerifPerformCompare(all bool, ctx *processors.Context) error { return performCompare(all, ctx) }

func VerifFindRootDirectory(start string) (string, error) { return findRootDirectory(start) }

func VerifValidateSemver(v string) error { return validateSemver(v) }
