//go:build verif

// Fake release service for the self-update checks, added by the /verif overlay
// only. Active only when CRS_VERIF_RELEASES names a catalogue directory: then
// http.DefaultTransport serves GitHub's release list and asset downloads from
// that directory, logs every request and injects the faults of CRS_VERIF_FAULTS
// ("k:kind,..." with kind in 404, 500, conn, trunc; k = 1-based request number).
package updater

import (
	"bytes"
	"errors"
	"fmt"
	"io"
	"net/http"
	"os"
	"path/filepath"
	"strconv"
	"strings"
	"sync"
)

type verifTransport struct {
	dir    string
	faults map[int]string
	mu     sync.Mutex
	n      int
}

func init() {
	dir := os.Getenv("CRS_VERIF_RELEASES")
	if dir == "" {
		return
	}
	t := &verifTransport{dir: dir, faults: map[int]string{}}
	for _, f := range strings.Split(os.Getenv("CRS_VERIF_FAULTS"), ",") {
		if k, kind, ok := strings.Cut(f, ":"); ok {
			if n, err := strconv.Atoi(k); err == nil {
				t.faults[n] = kind
			}
		}
	}
	http.DefaultTransport = t
}

type truncReader struct {
	data []byte
	off  int
}

func (r *truncReader) Read(p []byte) (int, error) {
	if r.off >= len(r.data) {
		return 0, io.ErrUnexpectedEOF
	}
	n := copy(p, r.data[r.off:])
	r.off += n
	return n, nil
}
func (r *truncReader) Close() error { return nil }

func (t *verifTransport) RoundTrip(req *http.Request) (*http.Response, error) {
	t.mu.Lock()
	t.n++
	n := t.n
	t.mu.Unlock()
	url := req.URL.String()
	fault := t.faults[n]
	if f, err := os.OpenFile(filepath.Join(t.dir, "requests.log"), os.O_APPEND|os.O_CREATE|os.O_WRONLY, 0o644); err == nil {
		fmt.Fprintf(f, "%d %s %s accept=%q fault=%s\n", n, req.Method, url, req.Header.Get("Accept"), fault)
		f.Close()
	}
	resp := func(code int, body []byte, ctype string) *http.Response {
		return &http.Response{StatusCode: code, Status: fmt.Sprintf("%d %s", code, http.StatusText(code)), Proto: "HTTP/1.1", ProtoMajor: 1, ProtoMinor: 1,
			Header: http.Header{"Content-Type": []string{ctype}}, Body: io.NopCloser(bytes.NewReader(body)), ContentLength: int64(len(body)), Request: req}
	}
	switch fault {
	case "404":
		return resp(404, []byte(`{"message":"Not Found"}`), "application/json"), nil
	case "500":
		return resp(500, []byte(`{"message":"Server Error"}`), "application/json"), nil
	case "conn":
		return nil, errors.New("verif: connection refused")
	case "403rate":
		// what GitHub answers to an unauthenticated client that has used up its quota
		r := resp(403, []byte(`{"message":"API rate limit exceeded for 203.0.113.7. (But here's the good news: Authenticated requests get a higher rate limit. Check out the documentation for more details.)","documentation_url":"https://docs.github.com/rest/overview/resources-in-the-rest-api#rate-limiting"}`), "application/json")
		r.Header.Set("X-RateLimit-Limit", "60")
		r.Header.Set("X-RateLimit-Remaining", "0")
		r.Header.Set("X-RateLimit-Reset", "4102444800")
		return r, nil
	case "403":
		return resp(403, []byte(`{"message":"Forbidden"}`), "application/json"), nil
	case "401":
		return resp(401, []byte(`{"message":"Bad credentials"}`), "application/json"), nil
	case "429":
		r := resp(429, []byte(`{"message":"You have exceeded a secondary rate limit. Please wait a few minutes before you try again."}`), "application/json")
		r.Header.Set("Retry-After", "60")
		return r, nil
	}
	var body []byte
	var err error
	ctype := "application/octet-stream"
	switch {
	case req.URL.Host == "api.github.com" && req.URL.Path == "/repos/coreruleset/crs-toolchain/releases":
		body, err = os.ReadFile(filepath.Join(t.dir, "releases.json"))
		ctype = "application/json"
	case req.URL.Host == "api.github.com" && strings.HasPrefix(req.URL.Path, "/repos/coreruleset/crs-toolchain/releases/assets/"):
		body, err = os.ReadFile(filepath.Join(t.dir, "asset-"+filepath.Base(req.URL.Path)))
	case req.URL.Host == "github.com" && strings.HasPrefix(req.URL.Path, "/coreruleset/crs-toolchain/releases/download/"):
		// browser_download_url: .../download/<tag>/<id>/<name>
		parts := strings.Split(req.URL.Path, "/")
		body, err = os.ReadFile(filepath.Join(t.dir, "asset-"+parts[len(parts)-2]))
	default:
		err = os.ErrNotExist
	}
	if err != nil {
		return resp(404, []byte(`{"message":"Not Found"}`), "application/json"), nil
	}
	if fault == "trunc" {
		r := resp(200, nil, ctype)
		r.Body = &truncReader{data: body[:len(body)/2]}
		r.ContentLength = int64(len(body))
		return r, nil
	}
	return resp(200, body, ctype), nil
}
