package rx

import "testing"

func TestProduct(t *testing.T) {
	cases := []struct {
		a, b  string
		mode  Mode
		holds bool
	}{
		{`(?:a|b)(?:c|d)e`, `(?:[ad]|bc)e`, Equiv, false},
		{`(?:a|b)(?:c|d)e`, `[ab][cd]e`, Equiv, true},
		{`[\t\n\f\r !-~]`, `[\s\x0b-~]`, Equiv, false},
		{`[\s!-~]`, `[\s\x0b!-~]`, Equiv, true},
		{`\bfoo`, `foo`, Equiv, false},
		{`a.b`, `(?s)a.b`, Equiv, false},
		{`foo|bar`, `(?:foo|bar)`, Equiv, true},
		{`a`, `a?`, Equiv, false},
		{`a`, `a?`, Subset, true},
		{`a?`, `a`, Subset, false},
		{`(?i)abc`, `[Aa][Bb][Cc]`, Equiv, true},
		{`(?i)k`, `[Kk]`, Equiv, false}, // Kelvin sign
		{`^a`, `a`, Equiv, false},
		{`a*`, `(?:a*)*`, Equiv, true},
		{`x(?:ab|ac)`, `xa[bc]`, Equiv, true},
		{`.|\s`, `.`, Equiv, false},
	}
	for _, c := range cases {
		res, ok, err := Decide(c.a, c.b, c.mode, Options{ExcludeVT: true})
		if err != nil {
			t.Fatalf("%q %q: %v", c.a, c.b, err)
		}
		if !ok {
			t.Errorf("%q vs %q: witness %+v not confirmed by regexp", c.a, c.b, res.Witness)
		}
		if res.Holds != c.holds {
			t.Errorf("%q vs %q: holds=%v want %v (witness %+v)", c.a, c.b, res.Holds, c.holds, res.Witness)
		}
	}
}
