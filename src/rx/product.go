// Package rx decides language equivalence / inclusion of two RE2 expressions by
// explicit-state search over the product of their compiled NFAs (syntax.Prog).
//
// What is decided is *contextual full-match* equivalence: for every left
// neighbour kind (begin of text, newline, word character, other), every string w
// over the exact rune partition induced by both programs, and every right
// neighbour kind (end of text, newline, word, other), A matches exactly the span w
// iff B does. This implies equal full-match languages and equal search (@rx)
// behaviour, including anchors and word boundaries.
package rx

import (
	"fmt"
	"regexp"
	"regexp/syntax"
	"sort"
	"strings"
	"unicode"
	"unicode/utf8"
)

type Mode int

const (
	Equiv  Mode = iota // L(A) == L(B)
	Subset             // L(A) subset of L(B)
)

type Options struct {
	ExcludeVT bool // U+000B is outside the compared alphabet
	Cap       int  // product state cap (0 = 200000)
	ASCIIOnly bool // restrict the alphabet to runes < 0x80 (not used for verdicts by default)
}

type Witness struct {
	Left  string `json:"left"`  // "" = begin of text
	Text  string `json:"text"`  // the span
	Right string `json:"right"` // "" = end of text
	InA   bool   `json:"in_a"`
	InB   bool   `json:"in_b"`
}

type Result struct {
	Holds        bool
	Inconclusive bool // cap hit
	States       int
	Transitions  int
	Witness      *Witness
}

const (
	kBOT = iota // begin of text (left) / end of text (right)
	kNL
	kWord
	kOther
)

var kindRune = [4]rune{-1, '\n', 'a', ' '}

func kindOf(r rune) int {
	switch {
	case r == '\n':
		return kNL
	case r >= '0' && r <= '9' || r >= 'A' && r <= 'Z' || r >= 'a' && r <= 'z' || r == '_':
		return kWord
	}
	return kOther
}

type prog struct {
	p *syntax.Prog
}

func compile(s string) (*prog, error) {
	re, err := syntax.Parse(s, syntax.Perl)
	if err != nil {
		return nil, err
	}
	p, err := syntax.Compile(re.Simplify())
	if err != nil {
		return nil, err
	}
	return &prog{p}, nil
}

// closure: all pcs reachable from set via epsilon moves allowed by flags; returns
// rune-consuming pcs (sorted) and whether Match is reachable.
func (g *prog) closure(set []uint32, flags syntax.EmptyOp, seen []bool, stack []uint32) (runes []uint32, match bool) {
	for i := range seen {
		seen[i] = false
	}
	stack = append(stack[:0], set...)
	for len(stack) > 0 {
		pc := stack[len(stack)-1]
		stack = stack[:len(stack)-1]
		if seen[pc] {
			continue
		}
		seen[pc] = true
		in := &g.p.Inst[pc]
		switch in.Op {
		case syntax.InstAlt, syntax.InstAltMatch:
			stack = append(stack, in.Out, in.Arg)
		case syntax.InstCapture, syntax.InstNop:
			stack = append(stack, in.Out)
		case syntax.InstEmptyWidth:
			if syntax.EmptyOp(in.Arg)&^flags == 0 {
				stack = append(stack, in.Out)
			}
		case syntax.InstMatch:
			match = true
		case syntax.InstFail:
		default:
			runes = append(runes, pc)
		}
	}
	return runes, match
}

func (g *prog) points(add func(r rune)) {
	for i := range g.p.Inst {
		in := &g.p.Inst[i]
		switch in.Op {
		case syntax.InstRune, syntax.InstRune1:
			if len(in.Rune) == 1 {
				r := in.Rune[0]
				add(r)
				add(r + 1)
				if syntax.Flags(in.Arg)&syntax.FoldCase != 0 {
					for r1 := unicode.SimpleFold(r); r1 != r; r1 = unicode.SimpleFold(r1) {
						add(r1)
						add(r1 + 1)
					}
				}
				continue
			}
			for j := 0; j+1 < len(in.Rune); j += 2 {
				add(in.Rune[j])
				add(in.Rune[j+1] + 1)
			}
		}
	}
}

// Compare decides the relation between expressions a and b.
func Compare(a, b string, mode Mode, opt Options) (Result, error) {
	if len(a)+len(b) > 30000 {
		// far beyond anything the explored spaces produce legitimately: give no verdict instead of burning the budget
		return Result{Holds: true, Inconclusive: true}, nil
	}
	ga, err := compile(a)
	if err != nil {
		return Result{}, fmt.Errorf("A does not parse: %w", err)
	}
	gb, err := compile(b)
	if err != nil {
		return Result{}, fmt.Errorf("B does not parse: %w", err)
	}
	if opt.Cap == 0 {
		opt.Cap = 200000
	}
	// exact alphabet partition
	pts := map[rune]bool{0: true, '\n': true, 0x0b: true, 0x0c: true,
		'0': true, '9' + 1: true, 'A': true, 'Z' + 1: true, '_': true, '_' + 1: true, 'a': true, 'z' + 1: true,
		0x80: true, 0xD800: true, 0xE000: true}
	add := func(r rune) {
		if r >= 0 && r <= unicode.MaxRune {
			pts[r] = true
		}
	}
	ga.points(add)
	gb.points(add)
	var reps []rune
	for r := range pts {
		if r >= 0xD800 && r < 0xE000 {
			continue
		}
		if opt.ExcludeVT && r == 0x0b {
			continue
		}
		if opt.ASCIIOnly && r >= 0x80 {
			continue
		}
		reps = append(reps, r)
	}
	sort.Slice(reps, func(i, j int) bool { return reps[i] < reps[j] })

	type state struct {
		prev   int
		sa, sb []uint32
		parent int
		via    rune
	}
	key := func(prev int, sa, sb []uint32) string {
		var sb2 strings.Builder
		sb2.WriteByte(byte('0' + prev))
		for _, x := range sa {
			sb2.WriteByte(byte(x))
			sb2.WriteByte(byte(x >> 8))
		}
		sb2.WriteByte(0xff)
		sb2.WriteByte(0xff)
		for _, x := range sb {
			sb2.WriteByte(byte(x))
			sb2.WriteByte(byte(x >> 8))
		}
		return sb2.String()
	}
	var states []state
	index := map[string]int{}
	push := func(prev int, sa, sb []uint32, parent int, via rune) {
		k := key(prev, sa, sb)
		if _, ok := index[k]; ok {
			return
		}
		index[k] = len(states)
		states = append(states, state{prev, sa, sb, parent, via})
	}
	for k := 0; k < 4; k++ {
		push(k, []uint32{uint32(ga.p.Start)}, []uint32{uint32(gb.p.Start)}, -1, 0)
	}
	seenA := make([]bool, len(ga.p.Inst))
	seenB := make([]bool, len(gb.p.Inst))
	var stack []uint32
	res := Result{Holds: true}
	witness := func(si int, right int, inA, inB bool) *Witness {
		var rs []rune
		cur := si
		for states[cur].parent >= 0 {
			rs = append(rs, states[cur].via)
			cur = states[cur].parent
		}
		for i, j := 0, len(rs)-1; i < j; i, j = i+1, j-1 {
			rs[i], rs[j] = rs[j], rs[i]
		}
		w := &Witness{Text: string(rs), InA: inA, InB: inB}
		if l := states[cur].prev; l != kBOT {
			w.Left = string(kindRune[l])
		}
		if right != kBOT {
			w.Right = string(kindRune[right])
		}
		return w
	}
	step := func(g *prog, runes []uint32, r rune) []uint32 {
		var next []uint32
		for _, pc := range runes {
			in := &g.p.Inst[pc]
			if in.MatchRune(r) {
				next = append(next, in.Out)
			}
		}
		sort.Slice(next, func(i, j int) bool { return next[i] < next[j] })
		out := next[:0]
		for i, x := range next {
			if i == 0 || x != next[i-1] {
				out = append(out, x)
			}
		}
		return out
	}
	for si := 0; si < len(states); si++ {
		if len(states) > opt.Cap {
			res.Inconclusive = true
			break
		}
		st := states[si]
		// acceptance for each right-context kind
		var clA, clB [4][]uint32
		for right := 0; right < 4; right++ {
			flags := syntax.EmptyOpContext(kindRune[st.prev], kindRune[right])
			ra, ma := ga.closure(st.sa, flags, seenA, stack)
			rb, mb := gb.closure(st.sb, flags, seenB, stack)
			clA[right] = append([]uint32(nil), ra...)
			clB[right] = append([]uint32(nil), rb...)
			bad := ma != mb
			if mode == Subset {
				bad = ma && !mb
			}
			if bad {
				res.Holds = false
				res.Witness = witness(si, right, ma, mb)
				res.States = len(states)
				return res, nil
			}
		}
		if len(st.sa) == 0 && len(st.sb) == 0 {
			continue
		}
		if mode == Subset && len(st.sa) == 0 {
			continue
		}
		for _, r := range reps {
			k := kindOf(r)
			na := step(ga, clA[k], r)
			nb := step(gb, clB[k], r)
			res.Transitions++
			if len(na) == 0 && len(nb) == 0 {
				continue
			}
			push(k, na, nb, si, r)
		}
	}
	res.States = len(states)
	return res, nil
}

// Confirm re-validates a witness with Go's regexp engine: does expr match exactly
// the span Text between the neighbours Left and Right?
func Confirm(expr string, w *Witness) (bool, error) {
	full := fmt.Sprintf(`\A(?s:.{%d})(?:%s)(?s:.{%d})\z`, utf8.RuneCountInString(w.Left), expr, utf8.RuneCountInString(w.Right))
	re, err := regexp.Compile(full)
	if err != nil {
		return false, err
	}
	return re.MatchString(w.Left + w.Text + w.Right), nil
}

// Decide runs Compare and re-validates any witness with the regexp engine.
// confirmed=false with a witness means the product search and the engine disagree (harness error).
func Decide(a, b string, mode Mode, opt Options) (res Result, confirmed bool, err error) {
	res, err = Compare(a, b, mode, opt)
	if err != nil || res.Witness == nil {
		return res, true, err
	}
	ia, e1 := Confirm(a, res.Witness)
	ib, e2 := Confirm(b, res.Witness)
	if e1 != nil || e2 != nil {
		return res, false, fmt.Errorf("confirm: %v %v", e1, e2)
	}
	return res, ia == res.Witness.InA && ib == res.Witness.InB, nil
}
