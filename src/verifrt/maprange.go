// Package verifrt is the run-time half of the map-iteration seam: every
// `range <map>` of the repository is rewritten (tools/maprange) into
// `range verifrt.Map(m, site)`, which asks the explorer which remaining key
// comes next. Every order produced is one the Go specification allows for the
// original loop (values are looked up at yield time, deleted keys are skipped,
// keys added during iteration are not visited).
package verifrt

import (
	"fmt"
	"iter"
	"sort"
)

// Choose returns the index of the next key among n remaining (canonically
// sorted) keys. nil = always the smallest.
var Choose func(site string, n int) int

func Map[K comparable, V any](m map[K]V, site string) iter.Seq2[K, V] {
	return func(yield func(K, V) bool) {
		keys := make([]K, 0, len(m))
		for k := range m {
			keys = append(keys, k)
		}
		sort.Slice(keys, func(i, j int) bool { return fmt.Sprint(keys[i]) < fmt.Sprint(keys[j]) })
		for len(keys) > 0 {
			i := 0
			if Choose != nil && len(keys) > 1 {
				i = Choose(site, len(keys))
			}
			k := keys[i]
			keys = append(keys[:i], keys[i+1:]...)
			v, ok := m[k]
			if !ok {
				continue
			}
			if !yield(k, v) {
				return
			}
		}
	}
}

// Instrumented is set by a file the rewriter adds to this package in the sched build.
var Instrumented bool
