package checks

import (
	"fmt"
	"os"
	"path/filepath"
	"regexp"
	"sort"
	"strings"

	crsctx "github.com/coreruleset/crs-toolchain/v2/context"
	"github.com/coreruleset/crs-toolchain/v2/util"
	"github.com/coreruleset/crs-toolchain/v2/zz_verif/core"
	"github.com/coreruleset/crs-toolchain/v2/zz_verif/inproc"
)

func init() { Registry["C13"] = C13 }

var c13Lines = []string{"  - test_id: 5", "test_id: abc", "  test_id:   7  ", "- test_title: 920100-3", "test_title: \"x\"", "desc: foo", "  data: x  ", "---", "# c", "", "   ",
	"  - test_id: ", "  test_title:  \t", "  - test_id: \"8\"", "\tdata: y\t", "  data: é\u00a0",
	// values with a colon inside
	"  - test_id: \"12:30\"", "    test_title: \"920100-7: GET: x\""}

type c13Variant struct {
	CRLF     bool
	FinalNL  bool
	Trailing int
}

func c13File(lines []string, v c13Variant) string {
	nl := "\n"
	if v.CRLF {
		nl = "\r\n"
	}
	s := strings.Join(lines, nl)
	if v.FinalNL {
		s += nl
	}
	for i := 0; i < v.Trailing; i++ {
		s += nl
	}
	return s
}

var idKey = regexp.MustCompile(`^(.*test_id:)\s+(.*)$`)
var titleKey = regexp.MustCompile(`^(.*test_title:)\s+(.*)$`)

// c13Expect: reference reading. Returns for every output line what it must look like.
type c13Want struct {
	Exact  *string // other lines: exactly this
	Prefix string  // id/title lines: must start with this ...
	Value  string  // ... and carry this value
}

func c13Reference(lines []string, rule string) (want []c13Want, uniform bool) {
	// trailing white-space-only lines are dropped
	end := len(lines)
	for end > 0 && strings.TrimSpace(lines[end-1]) == "" {
		end--
	}
	var shape strings.Builder
	nid, ntitle := 0, 0
	for _, l := range lines[:end] {
		l = strings.TrimSuffix(l, "\r")
		if m := idKey.FindStringSubmatch(l); m != nil {
			nid++
			shape.WriteByte('I')
			want = append(want, c13Want{Prefix: m[1], Value: fmt.Sprint(nid)})
		} else if m := titleKey.FindStringSubmatch(l); m != nil {
			ntitle++
			shape.WriteByte('T')
			want = append(want, c13Want{Prefix: m[1], Value: fmt.Sprintf("%s-%d", rule, ntitle)})
		} else {
			x := l
			want = append(want, c13Want{Exact: &x})
		}
	}
	uniform, _ = regexp.MatchString(`^(?:I*|T*|(?:IT)*|(?:TI)*)$`, shape.String())
	return
}

type c13Fail struct {
	Clause string     `json:"clause"`
	Why    string     `json:"why"`
	Lines  []string   `json:"lines"`
	V      c13Variant `json:"variant"`
	X      string     `json:"file"`
	Y      string     `json:"renumbered"`
}

func C13(r *core.Run) {
	dir := ""
	if !r.IsWorker() {
		dir = core.Scratch("c13")
		defer os.RemoveAll(dir)
	}
	type in struct {
		Dir    string
		MaxLen int
	}
	type out struct {
		Files, Ops, Changed, Uniform int
		Fails                        []c13Fail
	}
	spec := in{dir, r.Pick(4, 5)}
	variants := func(n int) []c13Variant {
		var vs []c13Variant
		for _, crlf := range []bool{false, true} {
			for _, nl := range []bool{true, false} {
				for tr := 0; tr <= 2; tr++ {
					if !nl && tr > 0 {
						continue
					}
					if n >= 5 && (crlf || tr == 1) {
						continue
					}
					vs = append(vs, c13Variant{crlf, nl, tr})
				}
			}
		}
		return vs
	}
	eval := func(rn *util.TestRenumberer, ctx *crsctx.Context, path string, lines []string, v c13Variant, x string, o *out) {
		fail := func(clause, why, y string) { o.Fails = append(o.Fails, c13Fail{clause, why, lines, v, x, y}) }
		write := func(s string) { os.WriteFile(path, []byte(s), 0o644) }
		read := func() string { b, _ := os.ReadFile(path); return string(b) }
		run := func(check bool) inproc.Outcome {
			o.Ops++
			return inproc.Guard(func() (string, error) { return "", rn.RenumberTest(path, check, ctx) })
		}
		write(x)
		before := statID(path)
		kx := run(true)
		if read() != x || statID(path) != before {
			fail("check-never-writes", "renumber-tests --check modified the file", read())
		}
		write(x)
		res := run(false)
		y := read()
		if res.Kind != inproc.OK {
			fail("idempotent", "renumber failed: "+res.Kind+" "+res.Msg, y)
			return
		}
		if y != x {
			o.Changed++
		}
		if (kx.Kind != inproc.OK) != (y != x) {
			fail("check-iff-change", fmt.Sprintf("--check %s but rewrite changes file: %v", kx.Kind, y != x), y)
		}
		res2 := run(false)
		if y2 := read(); y2 != y || res2.Kind != inproc.OK {
			fail("idempotent", "renumbering twice differs from once", y2)
		}
		// content
		want, uniform := c13Reference(lines, "123456")
		if uniform {
			o.Uniform++
		}
		if len(lines) == 0 || strings.TrimSpace(strings.Join(lines, "")) == "" {
			if y != "\n" && y != "" {
				fail("single-final-newline", "file without content must become empty or a single newline", y)
			}
			return
		}
		if !strings.HasSuffix(y, "\n") || strings.HasSuffix(y, "\n\n") {
			fail("single-final-newline", "output does not end with exactly one newline", y)
			return
		}
		got := strings.Split(strings.TrimSuffix(y, "\n"), "\n")
		if len(got) != len(want) {
			fail("other-lines-untouched", fmt.Sprintf("%d lines expected, %d written", len(want), len(got)), y)
			return
		}
		for i, w := range want {
			if w.Exact != nil {
				if got[i] != *w.Exact {
					fail("other-lines-untouched", fmt.Sprintf("line %d: %q became %q", i+1, *w.Exact, got[i]), y)
					return
				}
				continue
			}
			if !strings.HasPrefix(got[i], w.Prefix) {
				fail("other-lines-untouched", fmt.Sprintf("line %d: text before the value changed: %q", i+1, got[i]), y)
				return
			}
			if val := strings.Trim(strings.TrimPrefix(got[i], w.Prefix), " \t\"'"); uniform && val != w.Value {
				fail("numbering", fmt.Sprintf("line %d: value %q, expected %q", i+1, val, w.Value), y)
				return
			}
		}
	}
	outs, deaths := core.Parallel(r, "sweep", spec, r.Workers, func(in in, shard, n int, emit func(out)) {
		wd := filepath.Join(in.Dir, fmt.Sprint("w", shard))
		miniCRS().Materialise(wd)
		ctx := crsctx.New(wd, "toolchain.yaml")
		rn := util.NewTestRenumberer()
		var o out
		idx := 0
		one := func(lines []string) {
			for _, v := range variants(len(lines)) {
				if idx++; idx%n != shard {
					continue
				}
				name := "123456.yaml"
				if idx%3 == 0 {
					name = "123456.yml"
				}
				path := filepath.Join(wd, "tests/regression/tests/REQUEST-123-TEST", name)
				x := c13File(lines, v)
				r.Inflight(x)
				o.Files++
				eval(rn, ctx, path, lines, v, x, &o)
				os.Remove(path)
			}
		}
		one(nil)
		enumSeq(len(c13Lines), in.MaxLen, func(_ int, seq []int) {
			lines := make([]string, len(seq))
			for i, s := range seq {
				lines[i] = c13Lines[s]
			}
			one(lines)
		})
		// a payload line longer than any line buffer
		for _, ln := range []int{65535, 65536, 70000, 1 << 20} {
			long := "    data: " + strings.Repeat("a", ln)
			one([]string{"  - test_id: 4", long, "  - test_id: 9", "    desc: foo"})
			one([]string{long, "  - test_title: 1-7"})
		}
		// files with 9..12 tests: two-digit numbers
		for nt := 9; nt <= 12; nt++ {
			for shape := 0; shape < 3; shape++ {
				var lines []string
				for t := 0; t < nt; t++ {
					switch shape {
					case 0:
						lines = append(lines, fmt.Sprintf("  - test_id: %d", 100-t), "    desc: foo")
					case 1:
						lines = append(lines, "  - test_title: 920100-7", "    desc: foo")
					default:
						lines = append(lines, fmt.Sprintf("  - test_id: %d", t*3), "    test_title: 1-1", "    desc: foo")
					}
				}
				one(lines)
			}
		}
		if len(o.Fails) > 2000 {
			o.Fails = o.Fails[:2000]
		}
		// file selection of --all: only NNNNNN.yaml / .yml
		if shard == 0 {
			td := filepath.Join(wd, "tests/regression/tests/SEL")
			os.MkdirAll(td, 0o755)
			names := map[string]bool{"123456.yaml": true, "123457.yml": true, "12345.yaml": false, "1234567.yaml": false, "notes.yaml": false, "123456.yaml.bak": false, "123456.txt": false, "123456": true}
			for nme := range names {
				os.WriteFile(filepath.Join(td, nme), []byte("test_id: 9\n"), 0o644)
			}
			res := inproc.Guard(func() (string, error) { return "", rn.RenumberTests(false, false, ctx) })
			o.Ops++
			for nme, should := range names {
				b, _ := os.ReadFile(filepath.Join(td, nme))
				if changed := string(b) != "test_id: 9\n"; changed != should || res.Kind != inproc.OK {
					o.Fails = append(o.Fails, c13Fail{"file-selection", fmt.Sprintf("--all: file %s rewritten=%v, expected %v (%s)", nme, changed, should, res.Kind), []string{nme}, c13Variant{}, nme, string(b)})
				}
			}
		}
		emit(o)
	})
	// conformance: all files of <= 2 lines through the CLI
	type confRes struct {
		X     string
		Agree bool
		Why   string
	}
	conf, d2 := core.Parallel(r, "conf", spec, r.Workers, func(in in, shard, n int, emit func(confRes)) {
		wd := filepath.Join(in.Dir, fmt.Sprint("c", shard))
		miniCRS().Materialise(wd)
		ctx := crsctx.New(wd, "toolchain.yaml")
		rn := util.NewTestRenumberer()
		path := filepath.Join(wd, "tests/regression/tests/REQUEST-123-TEST/123456.yaml")
		idx := 0
		enumSeq(len(c13Lines), 2, func(_ int, seq []int) {
			lines := make([]string, len(seq))
			for i, s := range seq {
				lines[i] = c13Lines[s]
			}
			for _, v := range variants(len(lines)) {
				if idx++; idx%n != shard {
					continue
				}
				x := c13File(lines, v)
				os.WriteFile(path, []byte(x), 0o644)
				ki := inproc.Guard(func() (string, error) { return "", rn.RenumberTest(path, true, ctx) })
				ri := inproc.Guard(func() (string, error) { return "", rn.RenumberTest(path, false, ctx) })
				a, _ := os.ReadFile(path)
				os.WriteFile(path, []byte(x), 0o644)
				kc := core.RunCLI(r.Crs, wd, "", nil, "-d", wd, "util", "renumber-tests", "--check", "123456")
				rc := core.RunCLI(r.Crs, wd, "", nil, "-d", wd, "util", "renumber-tests", "123456")
				b, _ := os.ReadFile(path)
				agree := string(a) == string(b) && (ki.Kind == inproc.OK) == (kc.Exit == 0) && (ri.Kind == inproc.OK) == (rc.Exit == 0)
				emit(confRes{x, agree, fmt.Sprint(ki.Kind, ri.Kind, kc.Exit, rc.Exit, string(a) == string(b))})
			}
		})
	})
	deaths = append(deaths, d2...)
	// --all through the CLI: every assignment of file states to three test files x the four
	// combinations of --check and -o github. Each file must end up as the single-file path leaves
	// it (which the sweep judges against the reference), check modes must not write, and the exit
	// status of a check must say whether some file would change.
	type allRes struct {
		Runs int
		Bad  []string
	}
	c13States := [][2]string{
		{"tests:\n  - test_id: 1\n  - test_id: 2\n", "tests:\n  - test_id: 1\n  - test_id: 2\n"},
		{"tests:\n  - test_id: 7\n    desc: x\n  - test_id: 9\n", "tests:\n  - test_id: 1\n    desc: x\n  - test_id: 2\n"},
		{"tests:\n  - test_id: 1\n\n\n", "tests:\n  - test_id: 1\n"},
		{"tests:\n  - test_title: 920100-4", "tests:\n  - test_title: FILE-1\n"},
		{"tests:\n  - test_id: 5\n    test_title: 1-9\n  - test_id: 5\n    test_title: 1-9\n", "tests:\n  - test_id: 1\n    test_title: FILE-1\n  - test_id: 2\n    test_title: FILE-2\n"},
	}
	// where the three test files are: one directory level (the usual layout), or directly in the tests directory and two levels down
	c13NameSets := [][]string{{"REQUEST-123-TEST/123456.yaml", "REQUEST-123-TEST/123457.yml", "REQUEST-223-OTHER/223456.yaml"},
		{"REQUEST-123-TEST/123456.yaml", "123457.yml", "REQUEST-223-OTHER/sub/223456.yaml"}}
	alls, d3 := core.Parallel(r, "all", spec, r.Workers, func(in in, shard, n int, emit func(allRes)) {
		wd := filepath.Join(in.Dir, fmt.Sprint("a", shard))
		var o allRes
		idx := 0
		k := len(c13States)
		for a := 0; a < k*k*k; a++ {
			for mode := 0; mode < 4; mode++ {
				if idx++; idx%n != shard {
					continue
				}
				st := []int{a % k, a / k % k, a / k / k}
				c13Names := c13NameSets[(a+mode/2)%2]
				os.RemoveAll(wd)
				t := miniCRS()
				delete(t, "tests/regression/tests/REQUEST-123-TEST/123456.yaml")
				delete(t, "tests/regression/tests/REQUEST-123-TEST/123457.yml")
				t["tests/regression/tests/REQUEST-223-OTHER/notes.yaml"] = "tests:\n  - test_id: 5\n"
				needs := false
				for i, nme := range c13Names {
					t["tests/regression/tests/"+nme] = c13States[st[i]][0]
					needs = needs || c13States[st[i]][0] != c13States[st[i]][1]
				}
				// the configuration file is none of this command's business, whatever it holds
				switch a % 7 {
				case 3:
					t["regex-assembly/toolchain.yaml"] = ""
				case 5:
					t["regex-assembly/toolchain.yaml"] = "# nothing configured\n"
				case 6:
					delete(t, "regex-assembly/toolchain.yaml")
				}
				t.Materialise(wd)
				before := core.Snapshot(wd)
				check, github := mode&1 != 0, mode&2 != 0
				var args []string
				if github {
					args = append(args, []string{"-o", "--output=github"}[a%2:][0])
					if a%2 == 0 {
						args = append(args, "github")
					}
				}
				// the root as the shell completes it (trailing slash), or a directory below it
				dArg := []string{wd, wd + "/", wd + "/tests/", wd + "/rules"}[(a/2)%4]
				args = append(args, "-d", dArg, "util", "renumber-tests", "--all")
				// every spelling of the flag value
				if check {
					args = append(args, []string{"--check", "-c", "--check=true", "-c=true"}[a%4])
				} else if a%3 == 0 {
					args = append(args, []string{"--check=false", "-c=false", "--check=0"}[a/3%3])
				}
				r.Inflight(fmt.Sprint(st, args))
				res := core.RunCLI(r.Crs, wd, "", nil, args...)
				o.Runs++
				bad := func(f string, a ...any) {
					o.Bad = append(o.Bad, fmt.Sprintf("file states %v, `%s`: ", st, strings.Join(args[len(args)-3:], " "))+fmt.Sprintf(f, a...))
				}
				if check {
					if ch := before.Diff(core.Snapshot(wd), true); len(ch) > 0 {
						bad("--check changed %v", ch)
					}
					if (res.Exit != 0) != needs {
						bad("--check exits %d although a rewrite would change files: %v", res.Exit, needs)
					}
					continue
				}
				if res.Exit != 0 {
					bad("exit %d: %s", res.Exit, tailStr(res.Stderr, 200))
				}
				for i, nme := range c13Names {
					b, _ := os.ReadFile(filepath.Join(wd, "tests/regression/tests", nme))
					want := strings.ReplaceAll(c13States[st[i]][1], "FILE", filepath.Base(nme)[:6])
					if string(b) != want {
						bad("%s is %q, expected %q", nme, b, want)
					}
				}
				if b, _ := os.ReadFile(filepath.Join(wd, "tests/regression/tests/REQUEST-223-OTHER/notes.yaml")); string(b) != "tests:\n  - test_id: 5\n" {
					bad("notes.yaml rewritten")
				}
			}
		}
		emit(o)
	})
	// single-file form with files of the same stem beside the test file: whatever the command decides, a zero exit
	// status means the test file is renumbered (or, with --check, was already in order)
	sibs, d4 := core.Parallel(r, "siblings", spec, r.Workers, func(in in, shard, n int, emit func(allRes)) {
		wd := filepath.Join(in.Dir, fmt.Sprint("s", shard))
		var o allRes
		idx := 0
		for _, sib := range []string{"", "REQUEST-123-TEST/123456.bak", "REQUEST-123-TEST/123456.txt", "REQUEST-123-TEST/123456.json", "REQUEST-123-TEST/123456.yaml.orig", "ARCHIVE/123456.txt", "AAA/123456.yml.off", "ZZZ/123456.md"} {
			for st := 0; st < 3; st++ {
				for _, check := range []bool{false, true} {
					if idx++; idx%n != shard {
						continue
					}
					os.RemoveAll(wd)
					t := miniCRS()
					t["tests/regression/tests/REQUEST-123-TEST/123456.yaml"] = c13States[st][0]
					if sib != "" {
						t["tests/regression/tests/"+sib] = "tests:\n  - test_id: 44\n"
					}
					t.Materialise(wd)
					args := []string{"-d", wd, "util", "renumber-tests"}
					if check {
						args = append(args, "--check")
					}
					res := core.RunCLI(r.Crs, wd, "", nil, append(args, "123456")...)
					o.Runs++
					b, _ := os.ReadFile(filepath.Join(wd, "tests/regression/tests/REQUEST-123-TEST/123456.yaml"))
					where := fmt.Sprintf("sibling %q, file state %d, `%s 123456`: ", sib, st, strings.Join(args[2:], " "))
					needs := c13States[st][0] != c13States[st][1]
					switch {
					case check && res.Exit == 0 && needs:
						o.Bad = append(o.Bad, where+"--check exits 0 although the test file is not in order")
					case check && string(b) != c13States[st][0]:
						o.Bad = append(o.Bad, where+"--check changed the test file")
					case !check && res.Exit == 0 && string(b) != c13States[st][1]:
						o.Bad = append(o.Bad, where+fmt.Sprintf("exit 0 but the test file is %q, expected %q", b, c13States[st][1]))
					case !check && res.Exit != 0 && string(b) != c13States[st][0]:
						o.Bad = append(o.Bad, where+"the command fails but changed the test file")
					}
					if sib != "" {
						if sb, _ := os.ReadFile(filepath.Join(wd, "tests/regression/tests", sib)); string(sb) != "tests:\n  - test_id: 44\n" {
							o.Bad = append(o.Bad, where+"the sibling file was rewritten")
						}
					}
				}
			}
		}
		emit(o)
	})
	deaths = append(deaths, d4...)
	alls = append(alls, sibs...)
	deaths = append(deaths, d3...)
	if r.IsWorker() {
		return
	}
	allRuns := 0
	seenAll := map[string]bool{}
	for _, a := range alls {
		allRuns += a.Runs
		for _, b := range a.Bad {
			// one report per message shape (the states differ)
			_, msg, _ := strings.Cut(b, "`: ")
			key := strings.Join(strings.Fields(msg)[:2], " ")
			if seenAll[key] {
				continue
			}
			seenAll[key] = true
			r.Report(core.Violation{Clause: "all-agrees-with-single-file", Key: b, What: "renumber-tests --all: " + b})
		}
	}
	for _, d := range deaths {
		r.HarnessError("worker %s/%d %s on %q: %s", d.Stage, d.Shard, d.Kind, d.Case, tailStr(d.Log, 300))
	}
	validated, nd := 0, 0
	for _, c := range conf {
		if c.Agree {
			validated++
		} else if nd++; nd <= 5 {
			r.HarnessError("in-process and CLI disagree on %q: %s", c.X, c.Why)
		}
	}
	var tot out
	for _, o := range outs {
		tot.Files += o.Files
		tot.Ops += o.Ops
		tot.Changed += o.Changed
		tot.Uniform += o.Uniform
		tot.Fails = append(tot.Fails, o.Fails...)
	}
	sort.SliceStable(tot.Fails, func(i, j int) bool {
		a, b := tot.Fails[i], tot.Fails[j]
		if len(a.Lines) != len(b.Lines) {
			return len(a.Lines) < len(b.Lines)
		}
		return len(a.X) < len(b.X)
	})
	var reported [][]string
	for _, f := range tot.Fails {
		sub := false
		for _, rep := range reported {
			if rep[0] == f.Clause && isSubseq(rep[1:], f.Lines) {
				sub = true
			}
		}
		if sub {
			continue
		}
		reported = append(reported, append([]string{f.Clause}, f.Lines...))
		r.Report(core.Violation{Clause: f.Clause, Key: fmt.Sprintf("%q", f.X), What: fmt.Sprintf("test file %q: %s", f.X, f.Why), Detail: f,
			Repro: []string{fmt.Sprintf("printf %%s %s > tests/regression/tests/T/123456.yaml; crs-toolchain util renumber-tests 123456", core.ShellQuote(f.X))}})
	}
	r.Cov["evaluations"] = tot.Ops + allRuns
	r.Cov["all_runs_cli"] = allRuns
	r.Cov["states"] = tot.Files * 3
	r.Cov["transitions"] = tot.Ops
	r.Cov["files"] = tot.Files
	r.Cov["files_changed"] = tot.Changed
	r.Cov["files_with_uniform_tests"] = tot.Uniform
	r.Cov["distinct_nontrivial"] = tot.Changed
	r.Cov["traces_validated_against_impl"] = validated + allRuns
	r.Cov["exhaustive"] = len(deaths) == 0
	r.Cov["bound"] = map[string]any{"line_kinds": len(c13Lines), "max_lines": spec.MaxLen, "variants": "LF/CRLF x final newline x 0-2 trailing blank lines (5-line files: LF, 0/2 trailing)", "names": ".yaml/.yml"}
	r.Cov["rule"] = "all test files of <= n lines over the line kinds x variants, each explored as check(x), R(x), R(R(x)) on the real TestRenumberer (in-process); expected content from the reference reading (n-th id = n, n-th title = rule-n on files whose tests carry a uniform field set; all other lines byte-identical; one final newline); non-trivial = files that renumbering changes; stage all: every assignment of four file states to three test files x the four combinations of --check and -o github through `renumber-tests --all` with the real CLI, judged against the single-file result"
	r.Cov["samples"] = []any{c13File([]string{"  - test_id: 5", "desc: foo", "  test_id:   7  "}, c13Variant{true, true, 2}), c13File([]string{"- test_title: 920100-3", "test_id: abc"}, c13Variant{false, false, 0})}
	r.Assume = append(r.Assume, "the rewritten id/title line must keep everything up to the key's colon and carry the expected value (quotes/blanks around the value are not judged)",
		"the numbering clause is evaluated only where 'n-th test_id' and 'test n' coincide (ids only, titles only, id+title pairs in either order)")
}
