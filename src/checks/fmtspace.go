package checks

import "strings"

const raHeader1 = "##! Please refer to the documentation at"
const raHeader2 = "##! https://coreruleset.org/docs/development/regex_assembly/."

// line kinds of the format space (C09/C10)
var fmtLines = []string{
	"", "   ", "\t", "##! note", "foo", "  foo", "\tbar", "baz  ",
	"##!> assemble", "##!>assemble", "##!>   assemble  ", "##!> cmdline unix", "##!>cmdline   windows",
	"##!<", "  ##!<", "##!+ i", "##!+i", "##!+   s  ", "##!^ p", "##!^   p q", "##!$ s",
	"##!> define n v", "##!>  define   n   v", "##!> include inc", "##!>include  inc  --  a  b", "##!> include-except inc ex -- a b",
	"##!=>", "  ##!=< n", "[A-Z]x", raHeader1, raHeader2,
	// indentation made of other white space than blanks and TABs belongs to the line
	"\f##!> assemble", "\u00a0##!+ i", "\v##!>define  n  v", " \ffoo",
	// an end marker closes its block whatever follows it on the line
	"##!< end of block", "  ##!<1",
	// runs of three and more blanks / TABs between the arguments of a directive
	"##!> include-except   inc    ex \t\t ex", "##!>  include    inc   --   a    b",
	// the upper-case lint also looks into definitions
	"##!> define u [A-Z]+",
	// a reference is text like any other for the formatter
	"{{n}}x",
	// a carriage return at the end of a line (with CRLF line ends: two of them)
	"baz\r",
}

// fmtNesting: block structure only (C09 enumerates it to eight lines)
var fmtNesting = []string{"##!> assemble", "##!<", "ab", "abcdefgh"}

// fmtInteract: lines whose meaning depends on other lines of the file
var fmtInteract = []string{"##!+ i", "##!> define n v", "{{n}}x", "##!> assemble", "##!<", "##!=>", "##!^ p", "##!$ s", "foo", "##!> include inc", "  ##!=< n", "##!=> n"}

// troublemakers of C10: comments that look like directives, odd arguments, glued keywords, upper-case / unsupported flags
var fmtTrouble = []string{
	"##! ##!> include inc", "##! ##!+ i", "##! ##!> assemble", "##! ##!<", "##!+ I", "##!+ x", "##!> cmdline unix extra", "##!> assemblefoo",
	"##!> assemble extra", "##!> include inc trailing text", "##!> include-except inc", "##!> define n", "##!> define n v w", "##!<<", "##!< trailing", "##!=>x", "##! ##!^ p",
	"##!^", "##!+", "a ##!> include inc", "##!>", "##!> cmdline", "##!>define n v",
	// white space other than blank and TAB at the start of a line belongs to the line (the compiler strips only blanks and TABs)
	"##!> include a--b", "##!> include-except a--b ex", "foo\r", "##!> define n v\r", "\ufeffabc", "\ufeff##! c", "##!^ foo \t", "##!$ bar  ", "##!+ i \t",
	"\ffoo", "\vbar", "\u00a0baz", " \fqux", "\f##!> assemble", "\v##!<", "\u2003##!+ i", "foo\f", "\f",
}

type fmtVariant struct {
	CRLF    bool
	FinalNL bool
	Header  int // 0 absent, 1 present (with blank line), 2 present without the blank line, 3 complete below an empty line, 4 complete below a line of blanks
}

func fmtFile(lines []string, v fmtVariant) string {
	var ls []string
	switch v.Header {
	case 1:
		ls = append(ls, raHeader1, raHeader2, "")
	case 2:
		ls = append(ls, raHeader1, raHeader2)
	case 3:
		ls = append(ls, "", raHeader1, raHeader2, "")
	case 4:
		ls = append(ls, "  ", raHeader1, raHeader2, "")
	}
	ls = append(ls, lines...)
	nl := "\n"
	if v.CRLF {
		nl = "\r\n"
	}
	s := strings.Join(ls, nl)
	if v.FinalNL && len(ls) > 0 {
		s += nl
	}
	return s
}

func fmtVariants(full bool) []fmtVariant {
	if !full {
		return []fmtVariant{{false, true, 0}, {false, false, 1}}
	}
	var out []fmtVariant
	for _, crlf := range []bool{false, true} {
		for _, nl := range []bool{true, false} {
			for h := 0; h < 5; h++ {
				out = append(out, fmtVariant{crlf, nl, h})
			}
		}
	}
	return out
}

// enumFmtFiles enumerates the file space: all sequences of <= fullLen lines x all variants,
// and sequences of fullLen+1..maxLen lines x two variants.
func enumFmtFiles(alphabet []string, fullLen, maxLen int, shard, n int, visit func(lines []string, v fmtVariant, content string)) (total int) {
	idx := 0
	emit := func(lines []string, v fmtVariant) {
		if idx%n == shard {
			visit(lines, v, fmtFile(lines, v))
		}
		idx++
	}
	for _, v := range fmtVariants(true) {
		emit(nil, v) // empty body
	}
	enumSeq(len(alphabet), maxLen, func(_ int, seq []int) {
		lines := make([]string, len(seq))
		for i, s := range seq {
			lines[i] = alphabet[s]
		}
		for _, v := range fmtVariants(len(seq) <= fullLen) {
			emit(lines, v)
		}
	})
	return idx
}
