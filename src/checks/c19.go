package checks

import (
	"fmt"
	"os"
	"path/filepath"
	"runtime"
	"sort"
	"strings"
	"time"

	"github.com/coreruleset/crs-toolchain/v2/zz_verif/core"
	"github.com/coreruleset/crs-toolchain/v2/zz_verif/inproc"
)

func init() { Registry["C19"] = C19 }

var c19Tokens = []string{
	"\n", " ", "x", "##!>", "##!<", "##!=>", "##!=<", "##!+", "##!^", "##!$",
	"assemble", "cmdline", "unix", "include", "define", "--",
	"(", ")", `\(`, `\)`, "?i:", "?-s:", "(?i)", "[", "]", "{", "}", "{{", "}}",
	"|", `\`, `"`, "*", "\x01", "é", "\xff",
	`\(?i:`, `\(?s:`, "(?i:x)", "(?s:.)", ".",
	"##!> define x ", "{{x}}",
}

// line-level alphabet: whole lines, well-formed and malformed directives
var c19Lines = []string{
	"a", "a|b", "(", ")", "(?:", "[", `\(?i:b`, `a\(?-s:b`, "(?i:a|b)", "(?-s:.)x", `\\(?i:a)`, `"`, `\`, "{{x}}", "{{y}}", "a{", "^", "$.", "\xff",
	"##!> assemble", "##!> cmdline unix", "##!> cmdline windows", "##!> cmdline", "##!> cmdline foo", "##!> foo", "##!>", "##!<", "  ##!<",
	"##!=>", "##!=> x", "##!=< x", "##!=<", "##!=> nope",
	"##!+ i", "##!+ s", "##!^ p(", "##!$ )s", "##!^ x", "##!$ y",
	"##!> define x (", "##!> define y {{x}}", "##!> define x a{{x}}", "##!> define x {{y}}b", "##!> include x", "##!> include-except x x", "##!> include x -- x y", "##!> include x -- a", "##! c", "",
	"'a", "a@", "a~", `a\@`, "@", "\t", "##!> include inc",
	"\xef", "\xef\xbb", "\xef\xbb\xbfa", "\xc3",
	"##!> include x -- o \"", "##!> include-except x x -- r \"", "##!^ (?i:p", "##!$ (?s:x", "##!^ (?:(",
	"##!=> \x0b", "##!=< \u00a0", "##!=>\u0085", "##!> include \u00a0", "##!^ \x0b", "##!> define \u00a0 \u2003",
}

type c19Site struct {
	Count   int        `json:"count"`
	Example core.Bytes `json:"example"`
	Mode    string     `json:"mode"`
	Msg     string     `json:"msg"`
}

type c19Out struct {
	Evals    int                 `json:"evals"`
	Kinds    map[string]int      `json:"kinds"`
	Sites    map[string]*c19Site `json:"sites"`
	Outcomes int                 `json:"outcomes"` // distinct regex outputs (hash count)
}

type c19In struct {
	Dir      string
	TokMax   int
	IncMax   int
	LineMax  int
	LineIncl int
}

// enumerate all sequences over k symbols of length 1..max, calling f(idx, seq)
func enumSeq(k, max int, f func(idx int, seq []int)) int {
	idx := 0
	for l := 1; l <= max; l++ {
		seq := make([]int, l)
		for {
			f(idx, seq)
			idx++
			i := l - 1
			for i >= 0 {
				seq[i]++
				if seq[i] < k {
					break
				}
				seq[i] = 0
				i--
			}
			if i < 0 {
				break
			}
		}
	}
	return idx
}

func c19Build(seq []int, alphabet []string, sep string) string {
	var sb strings.Builder
	for i, s := range seq {
		if i > 0 {
			sb.WriteString(sep)
		}
		sb.WriteString(alphabet[s])
	}
	return sb.String()
}

// c19Blocks: lines of the block-structure enumeration
var c19Blocks = []string{"a", "##!=>", "##!> cmdline unix", "##!> assemble", "##!<", "'##!=>", "'##!=< n", "##!=< n", "##!=> n", "##!> include x"}

func c19Tree() core.Tree {
	return core.Tree{
		"regex-assembly/include/x.ra":   "foo\nbar\n",
		"regex-assembly/include/inc.ra": "",
		"regex-assembly/exclude/":       "",
		"regex-assembly/toolchain.yaml": "patterns:\n  anti_evasion:\n    unix: '[x]*'\n    windows: '[y]*'\n  anti_evasion_suffix:\n    unix: '\\s'\n    windows: '\\b'\n  anti_evasion_no_space_suffix:\n    unix: 'n'\n    windows: 'w'\n",
	}
}

func C19(r *core.Run) {
	if r.IsWorker() {
		core.LimitOpenFiles(4096)
	}
	dir := ""
	if !r.IsWorker() {
		dir = core.Scratch("c19")
		defer os.RemoveAll(dir)
	}
	in := c19In{Dir: dir, TokMax: r.Pick(4, 5), IncMax: r.Pick(3, 4), LineMax: r.Pick(3, 4), LineIncl: r.Pick(2, 3)}
	if r.Degraded() {
		in = c19In{Dir: dir, TokMax: 2, IncMax: 1, LineMax: 1, LineIncl: 1}
	}
	if v := os.Getenv("VERIF_C19_TOKMAX"); v != "" {
		fmt.Sscan(v, &in.TokMax)
	}
	outs, deaths := core.Parallel(r, "enum", in, r.Workers, func(in c19In, shard, n int, emit func(c19Out)) {
		wdir := filepath.Join(in.Dir, fmt.Sprint("w", shard))
		c19Tree().Materialise(wdir)
		root := inproc.NewRoot(wdir)
		incPath := filepath.Join(wdir, "regex-assembly/include/inc.ra")
		res := c19Out{Kinds: map[string]int{}, Sites: map[string]*c19Site{}}
		distinct := map[string]struct{}{}
		incDirty := false
		run := func(mode, text string) {
			r.Inflight(mode + ":" + text)
			var o inproc.Outcome
			if mode == "stdin" {
				// a program that includes inc must see the file the CLI replay will see (empty), not the last case's
				if incDirty && strings.Contains(text, "inc") {
					writeRetry(incPath, "")
					incDirty = false
				}
				o = root.Generate(text)
			} else {
				writeRetry(incPath, text)
				incDirty = text != ""
				o = root.Generate("##!> include inc\n")
			}
			res.Evals++
			res.Kinds[o.Kind]++
			if o.Kind == inproc.OK {
				distinct[core.Hash(o.Out)] = struct{}{}
			}
			if o.Kind == inproc.Runtime || o.Kind == inproc.Other {
				key := o.Kind + "@" + o.Site
				s := res.Sites[key]
				if s == nil {
					s = &c19Site{Example: core.Bytes(text), Mode: mode, Msg: o.Msg}
					res.Sites[key] = s
				}
				s.Count++
				if len(text) < len(s.Example) {
					s.Example, s.Mode, s.Msg = core.Bytes(text), mode, o.Msg
				}
			}
		}
		enumSeq(len(c19Tokens), in.TokMax, func(idx int, seq []int) {
			if idx%n != shard {
				return
			}
			run("stdin", c19Build(seq, c19Tokens, ""))
			if len(seq) <= in.IncMax {
				run("include", c19Build(seq, c19Tokens, ""))
			}
		})
		enumSeq(len(c19Lines), in.LineMax, func(idx int, seq []int) {
			if idx%n != shard {
				return
			}
			run("stdin", c19Build(seq, c19Lines, "\n")+"\n")
			if len(seq) <= in.LineIncl {
				run("include", c19Build(seq, c19Lines, "\n"))
			}
		})
		// block structure: a small alphabet of lines that only mean something together (markers, stored names, nested
		// blocks, verbatim cmdline lines that look like markers), enumerated deeper than the general line alphabet
		enumSeq(len(c19Blocks), 5, func(idx int, seq []int) {
			if idx%n != shard || len(seq) < 4 {
				return
			}
			run("stdin", c19Build(seq, c19Blocks, "\n")+"\n")
		})
		os.WriteFile(incPath, nil, 0o644)
		res.Outcomes = len(distinct)
		emit(res)
	})
	total := c19Out{Kinds: map[string]int{}, Sites: map[string]*c19Site{}}
	for _, o := range outs {
		total.Evals += o.Evals
		total.Outcomes += o.Outcomes
		for k, v := range o.Kinds {
			total.Kinds[k] += v
		}
		for k, s := range o.Sites {
			t := total.Sites[k]
			if t == nil {
				total.Sites[k] = s
				continue
			}
			t.Count += s.Count
			if len(s.Example) < len(t.Example) || (len(s.Example) == len(t.Example) && s.Example < t.Example) {
				t.Example, t.Mode, t.Msg = s.Example, s.Mode, s.Msg
			}
		}
	}
	// conformance: all token strings of <= 2 tokens and line programs of 1 line through the real CLI
	cdir := filepath.Join(dir, "cli")
	c19Tree().Materialise(cdir)
	validated, disagreements := 0, 0
	var confCases []string
	enumSeq(len(c19Tokens), 2, func(_ int, seq []int) { confCases = append(confCases, c19Build(seq, c19Tokens, "")) })
	enumSeq(len(c19Lines), 1, func(_ int, seq []int) { confCases = append(confCases, c19Build(seq, c19Lines, "\n")+"\n") })
	type confRes struct {
		Case, In, Cli string
		Agree         bool
	}
	confOut, confDeaths := core.Parallel(r, "conf", struct {
		Dir   string
		Cases []string
	}{cdir, confCases}, r.Workers, func(in struct {
		Dir   string
		Cases []string
	}, shard, n int, emit func(confRes)) {
		root := inproc.NewRoot(in.Dir)
		for i, c := range in.Cases {
			if i%n != shard {
				continue
			}
			o := root.Generate(c)
			cli := core.RunCLI(r.Crs, in.Dir, c, nil, "-d", in.Dir, "regex", "generate", "-")
			emit(confRes{c, o.String(), cliClass(cli), agreeCLI(o, cli)})
		}
	})
	deaths = append(deaths, confDeaths...)
	if r.IsWorker() {
		return
	}
	for _, c := range confOut {
		if c.Agree {
			validated++
		} else {
			disagreements++
			if disagreements <= 5 {
				r.HarnessError("in-process and CLI disagree on %q: in-process %s, cli %s", c.Case, c.In, c.Cli)
			}
		}
	}
	// the configuration file is read on every run: whatever document it holds, generate ends with a result or a diagnostic
	cfgRuns := 0
	for ci, doc := range []string{"", "---\n", "~\n", "null\n", "NULL\n", "# only a comment\n", "---\n---\npatterns:\n  anti_evasion:\n    unix: 'x'\n", "patterns: ~\n", "patterns:\n  anti_evasion: ~\n",
		"patterns:\n  anti_evasion:\n    unix: ~\n", "patterns: []\n", "patterns: 3\n", "[]\n", "3\n", "\"text\"\n", "patterns:\n  anti_evasion:\n    unix: [a, b]\n", "patterns:\n  anti_evasion:\n    unix: {a: b}\n",
		"&a [*a]\n", "patterns: &p\n  anti_evasion: *p\n", "\xff\xfe\n", "\ufeffpatterns:\n", "patterns:\n\tanti_evasion: x\n", "? |\n  x\n: y\n", "patterns:\n  anti_evasion:\n    unix: '('\n"} {
		d := core.Scratch("c19cfg")
		t := c19Tree()
		t["regex-assembly/toolchain.yaml"] = doc
		t.Materialise(d)
		for _, prog := range []string{"a\n", "##!> cmdline unix\nls@\nrm -f~\n##!<\n", "##!> cmdline windows\ndir\n##!<\n", "##!> include x\n", ""} {
			cli := core.RunCLI(r.Crs, d, prog, nil, "-d", d, "regex", "generate", "-")
			cfgRuns++
			if cls := cliClass(cli); cls == "runtime" || cls == "timeout" || (cli.Exit == 2 && strings.Contains(cli.Stderr, "goroutine ") && !strings.Contains(cli.Stderr, "PNC")) {
				r.Report(core.Violation{Clause: "no-runtime-fault", Key: fmt.Sprintf("config %d %q", ci, prog), What: fmt.Sprintf("with toolchain.yaml %q generate of %q ends with %s: %s", doc, prog, cls, tailStr(cli.Stderr, 300)),
					Detail: map[string]any{"toolchain_yaml": doc, "program": prog, "exit": cli.Exit, "stderr_tail": tailStr(cli.Stderr, 600)}})
			}
		}
		os.RemoveAll(d)
	}
	r.Cov["configuration_documents_x_programs_through_cli"] = cfgRuns
	// every distinct runtime fault is replayed through the real CLI before it counts
	keys := make([]string, 0, len(total.Sites))
	for k := range total.Sites {
		keys = append(keys, k)
	}
	sort.Strings(keys)
	for _, k := range keys {
		s := total.Sites[k]
		text := string(s.Example)
		tree := c19Tree()
		stdin := text
		if s.Mode == "include" {
			tree["regex-assembly/include/inc.ra"] = text
			stdin = "##!> include inc\n"
		}
		confirmed := 0
		var last core.CLIResult
		for i := 0; i < 5; i++ {
			d := core.Scratch("c19r")
			tree.Materialise(d)
			last = core.RunCLI(r.Crs, d, stdin, nil, "-d", d, "regex", "generate", "-")
			os.RemoveAll(d)
			if strings.Contains(last.Stderr, "runtime error") || (strings.Contains(last.Stderr, "goroutine ") && strings.Contains(last.Stderr, "panic:")) && last.Exit == 2 && !strings.Contains(last.Stderr, "zerolog") {
				confirmed++
			}
		}
		if confirmed == 0 {
			r.HarnessError("runtime fault %s on %q seen in-process but not through the CLI (exit %d)", k, text, last.Exit)
			continue
		}
		if confirmed != 5 {
			r.HarnessError("runtime fault %s on %q not deterministic through the CLI (%d/5)", k, text, confirmed)
			continue
		}
		r.Report(core.Violation{
			Clause: "no-runtime-fault", Key: k,
			What:   fmt.Sprintf("generate dies with %s at %s on input %q (%d inputs)", s.Msg, k, text, s.Count),
			Detail: map[string]any{"input": text, "mode": s.Mode, "site": k, "msg": s.Msg, "count": s.Count, "cli_exit": last.Exit, "cli_stderr_tail": tailStr(last.Stderr, 600)},
			Repro:  []string{fmt.Sprintf("printf %%s %s | crs-toolchain -d <root with regex-assembly/> regex generate -", core.ShellQuote(stdin))},
		})
	}
	unconfirmed := 0
	for _, d := range deaths {
		// a worker that hung or died is only evidence: the input is replayed through the real CLI (60 s limit)
		mode, text, _ := strings.Cut(d.Case, ":")
		tree := c19Tree()
		stdin := text
		if mode == "include" {
			tree["regex-assembly/include/inc.ra"] = text
			stdin = "##!> include inc\n"
		}
		sd := core.Scratch("c19d")
		tree.Materialise(sd)
		cli := core.RunCLI(r.Crs, sd, stdin, nil, "-d", sd, "regex", "generate", "-")
		os.RemoveAll(sd)
		switch {
		case text == "":
			r.Report(core.Violation{Clause: "no-runtime-fault", Key: "fatal:" + d.Case, What: fmt.Sprintf("worker process died (fatal error) on %q", d.Case), Detail: d})
		case cli.TimedOut:
			r.Report(core.Violation{Clause: "terminates", Key: d.Case, What: fmt.Sprintf("generate does not terminate (%d s of CPU in-process, 60 s through the CLI) on %q", core.WatchdogSeconds, d.Case), Detail: d})
		case strings.Contains(cli.Stderr, "runtime error") || strings.Contains(cli.Stderr, "fatal error:") || strings.Contains(cli.Stderr, "goroutine ") && cli.Exit == 2 && !strings.Contains(cli.Stderr, "zerolog"):
			r.Report(core.Violation{Clause: "no-runtime-fault", Key: "fatal:" + d.Case, What: fmt.Sprintf("generate dies with a runtime fault on %q: %s", d.Case, tailStr(cli.Stderr, 200)), Detail: d})
		default:
			unconfirmed++
			fmt.Fprintf(os.Stderr, "NOTE: worker %s/%d %s on %q, but the CLI handles that input (exit %d): not counted; the rest of that shard was not explored\n", d.Stage, d.Shard, d.Kind, d.Case, cli.Exit)
		}
	}
	r.Cov["worker_deaths_not_confirmed_by_cli"] = unconfirmed
	nt := 0
	for _, l := range []int{in.TokMax} {
		p := 1
		for i := 1; i <= l; i++ {
			p *= len(c19Tokens)
			nt += p
		}
	}
	r.Cov["evaluations"] = total.Evals
	r.Cov["states"] = total.Evals + 1
	r.Cov["transitions"] = total.Evals
	r.Cov["traces_validated_against_impl"] = validated
	r.Cov["distinct_nontrivial"] = total.Outcomes
	r.Cov["rule"] = "all token strings of <= TokMax tokens over the token alphabet and all line programs of <= LineMax lines over the line alphabet, on stdin and (shorter bound) as content of an included file; non-trivial = distinct regex outputs produced (per shard, summed)"
	r.Cov["outcome_kinds"] = total.Kinds
	r.Cov["bound"] = in
	r.Cov["alphabet_tokens"] = len(c19Tokens)
	r.Cov["alphabet_lines"] = len(c19Lines)
	r.Cov["token_strings"] = nt
	r.Cov["exhaustive"] = len(deaths) == 0
	r.Cov["runtime_fault_sites"] = keys
	r.Cov["samples"] = []any{
		map[string]any{"mode": "stdin", "input": c19Build([]int{3, 11, 1, 12}, c19Tokens, "")},
		map[string]any{"mode": "stdin", "input": c19Build([]int{6, 19, 28}, c19Lines, "\n") + "\n"},
		map[string]any{"mode": "include", "input": c19Build([]int{18, 20, 2}, c19Tokens, "")},
	}
	r.Assume = append(r.Assume,
		"in-process Assembler.Run with patched zerolog (Fatal panics instead of os.Exit) behaves like `regex generate -`; validated on all <=2-token strings and single lines through the real binary",
		fmt.Sprintf("termination = completes within the %ds watchdog (normal cost 50us)", core.WatchdogSeconds))
}

// writeRetry writes a file; the repository never closes included files, so after a
// self-including case the descriptor table is full until the finalizers have run.
func writeRetry(p, text string) {
	var err error
	for i := 0; i < 50; i++ {
		if err = os.WriteFile(p, []byte(text), 0o644); err == nil {
			return
		}
		runtime.GC()
		time.Sleep(20 * time.Millisecond)
	}
	panic(err)
}

func tailStr(s string, n int) string {
	if len(s) > n {
		return s[len(s)-n:]
	}
	return s
}

func cliClass(c core.CLIResult) string {
	switch {
	case c.TimedOut:
		return "timeout"
	case c.Exit == 0:
		return "ok:" + c.Stdout
	case strings.Contains(c.Stderr, "runtime error"):
		return "runtime"
	case c.Exit == 2:
		return "panic"
	default:
		return fmt.Sprint("exit", c.Exit)
	}
}

// agreeCLI: the in-process outcome and the real CLI run are the same observable result.
func agreeCLI(o inproc.Outcome, c core.CLIResult) bool {
	switch o.Kind {
	case inproc.OK:
		return c.Exit == 0 && c.Stdout == o.Out
	case inproc.Error, inproc.Fatal:
		return c.Exit == 1 && c.Stdout == ""
	case inproc.Panic:
		return c.Exit == 2 && !strings.Contains(c.Stderr, "runtime error") && c.Stdout == ""
	case inproc.Runtime:
		return c.Exit == 2 && strings.Contains(c.Stderr, "runtime error")
	case inproc.Other:
		return c.Exit == 2 && strings.Contains(c.Stderr, "panic:") && !strings.Contains(c.Stderr, "zerolog")
	}
	return false
}
