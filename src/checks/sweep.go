package checks

import (
	"strings"

	"github.com/coreruleset/crs-toolchain/v2/zz_verif/core"
)

// sweepSpec describes a bounded program space (strata A "optimiser", B "structure", C "mixed").
type sweepSpec struct {
	Tokens    []string
	One       int  // stratum A: single entry of <= One tokens
	Two       int  // stratum A: two entries of <= Two tokens each
	Three     bool // stratum A: three entries of one token
	StructLen int  // stratum B: bodies of <= StructLen lines over structLines
	Mixed     bool // stratum C
	FullHdr   int  // full header product for programs with <= FullHdr tokens in total
	Flags     bool // entries may contain inline flag groups
	Struct2   int  // stratum B2: bodies of <= Struct2 lines over structLines2 (at least one line outside structLines)
	RawHalves bool // stratum P2: raw token sequences as prefix and suffix (programs that compile are judged, the others are outside)
	PreSuf    bool // stratum P: every pair (prefix, suffix) of group-ish entries around a fixed body
	HdrOnly   bool // stratum H: programs whose body assembles to nothing (prefix / suffix lines only, empty blocks)
}

// preSufTokens: what group scanning, group removal and quoting look at
var preSufTokens = []string{"(?:", "(", ")", "|", `\[`, `\]`, "a", `"`, `\\`}

// groupTokens: whole groups with an alternative that is a literal bracket, parenthesis or quote
var groupTokens = []string{`(?:\[|ab)`, `(?:\]|ab)`, `(?:\(|ab)`, `(?:\)|ab)`, `(?:"|ab)`, `(?:[(]|ab)`, `(?:[)]|ab)`, `(?:b|cd)+`, "a", ".", `\[`, `\]`}

type header struct{ Flags, Prefix, Suffix string }

var hdrFlags = []string{"", "i", "s", "is"}
var hdrPrefix = []string{"", "x", "[xy]+"}
var hdrSuffix = []string{"", "y", `\b`}

func allHeaders() []header {
	var hs []header
	for _, f := range hdrFlags {
		for _, p := range hdrPrefix {
			for _, s := range hdrSuffix {
				hs = append(hs, header{f, p, s})
			}
		}
	}
	return hs
}

var fewHeaders = []header{{}, {"is", "[xy]+", `\b`}, {"", "x", "y"}}

func isASCIIProg(lines [][]string) bool {
	for _, l := range lines {
		for _, t := range l {
			for i := 0; i < len(t); i++ {
				if t[i] >= 0x80 {
					return false
				}
			}
		}
	}
	return true
}

// programs enumerates the space deterministically; visit is called for programs whose
// index modulo n equals shard.
func (s sweepSpec) programs(shard, n int, visit func(stratum string, p Prog)) (total int) {
	idx := 0
	emit := func(stratum string, lines [][]string, hs []header) {
		ascii := isASCIIProg(lines)
		for _, h := range hs {
			if strings.Contains(h.Flags, "i") && !ascii {
				continue
			}
			if idx%n == shard {
				visit(stratum, Prog{Flags: h.Flags, Prefix: h.Prefix, Suffix: h.Suffix, Lines: lines})
			}
			idx++
		}
	}
	full := allHeaders()
	hdrFor := func(ntok int) []header {
		if ntok <= s.FullHdr {
			return full
		}
		return fewHeaders
	}
	one := enumEntriesFlags(s.Tokens, s.One, s.Flags)
	for _, e := range one {
		emit("A1", [][]string{e}, hdrFor(len(e)))
	}
	two := enumEntriesFlags(s.Tokens, s.Two, s.Flags)
	for _, e1 := range two {
		for _, e2 := range two {
			emit("A2", [][]string{e1, e2}, hdrFor(len(e1)+len(e2)))
		}
	}
	if s.Three {
		single := enumEntriesFlags(s.Tokens, 1, s.Flags)
		for _, e1 := range single {
			for _, e2 := range single {
				for _, e3 := range single {
					emit("A3", [][]string{e1, e2, e3}, fewHeaders)
				}
			}
		}
	}
	// stratum U: entries of <= 2 tokens (pairs of <= 1) with an upper-case escape class, under all four flag settings
	isUpper := func(e []string) bool {
		return strings.Contains(strings.Join(e, ""), `\S`) || strings.Contains(strings.Join(e, ""), `\D`) || strings.Contains(strings.Join(e, ""), `\W`) || strings.Contains(strings.Join(e, ""), "[^a]") || strings.ContainsAny(strings.Join(e, ""), "\f\u00a0")
	}
	flagHdrs := []header{{}, {Flags: "i"}, {Flags: "s"}, {Flags: "is"}, {"i", "x", "y"}}
	for _, e := range enumEntriesFlags(upperTokens, 2, s.Flags) {
		if isUpper(e) {
			emit("U", [][]string{e}, flagHdrs)
		}
	}
	ups := enumEntriesFlags(upperTokens, 1, s.Flags)
	for _, e1 := range ups {
		for _, e2 := range ups {
			if isUpper(e1) || isUpper(e2) {
				emit("U", [][]string{e1, e2}, flagHdrs[:4])
			}
		}
	}
	// stratum N: the dot, the newline and two letters: three entries of <= 2 tokens, with and without a dot as suffix, with and
	// without the s flag (where the dot and the newline meet, the engine's printer nests flag groups)
	if s.PreSuf {
		ne := enumEntriesFlags([]string{".", `\n`, "a", "b"}, 2, s.Flags)
		for _, e1 := range ne {
			for _, e2 := range ne {
				for _, e3 := range ne {
					for _, h := range []header{{}, {Flags: "s"}, {Suffix: "."}, {Flags: "s", Suffix: "."}} {
						if idx%n == shard {
							visit("N", Prog{Flags: h.Flags, Suffix: h.Suffix, Lines: [][]string{e1, e2, e3}})
						}
						idx++
					}
				}
			}
		}
	}
	if s.HdrOnly {
		// flag lines in every spelling the parser may accept: whatever compiles must print lower-case i/s only
		for _, f := range []string{"I", "S", "Is", "iS", "SI", "si", "ii", "sis", "i s", "m", "U"} {
			for _, e := range [][]string{{"a", "b", "c"}, {"a", ".", "b"}} {
				if idx%n == shard {
					visit("H", Prog{Flags: f, Lines: [][]string{e}})
				}
				idx++
			}
		}
		bodies := [][][]string{nil, {{"##!> cmdline unix"}, {"##!<"}}, {{"##!> assemble"}, {"##!<"}}, {{"##! comment"}, {""}}}
		for _, e := range one {
			x := strings.Join(e, "")
			bs, fs := bodies, []string{"", "is"}
			if len(e) == 2 {
				bs, fs = bodies[:2], fs[:1]
			} else if len(e) > 2 {
				bs, fs = bodies[:1], fs[:1]
			}
			for _, b := range bs {
				for _, f := range fs {
					if f != "" && !isASCIIProg([][]string{e}) {
						continue
					}
					for _, h := range []header{{f, x, ""}, {f, "", x}, {f, x, x}} {
						if idx%n == shard {
							visit("H", Prog{Flags: h.Flags, Prefix: h.Prefix, Suffix: h.Suffix, Lines: b})
						}
						idx++
					}
				}
			}
		}
	}
	if s.StructLen > 0 {
		enumSeq(len(structLines), s.StructLen, func(_ int, seq []int) {
			ls := make([]string, len(seq))
			for i, x := range seq {
				ls[i] = structLines[x]
			}
			if !wellFormedBody(ls) {
				return
			}
			emit("B", tokLines(ls), fewHeaders[:2])
		})
	}
	if s.PreSuf {
		ps := enumEntriesFlags(preSufTokens, 3, s.Flags)
		for _, e1 := range ps {
			for _, e2 := range ps {
				for _, b := range [][][]string{{{"ab"}, {"cd"}}, {{"a"}}} {
					if idx%n == shard {
						visit("P", Prog{Prefix: strings.Join(e1, ""), Suffix: strings.Join(e2, ""), Lines: b})
					}
					idx++
				}
			}
		}
	}
	if s.RawHalves {
		// halves that are not expressions of their own (an open group in the prefix, its end in the suffix, stray
		// parentheses): every raw token sequence of <= 2 tokens on either side
		var raw []string
		enumSeq(len(preSufTokens), 2, func(_ int, seq []int) {
			var sb strings.Builder
			for _, x := range seq {
				sb.WriteString(preSufTokens[x])
			}
			raw = append(raw, sb.String())
		})
		for _, pre := range raw {
			for _, suf := range raw {
				if idx%n == shard {
					visit("P", Prog{Prefix: pre, Suffix: suf, Lines: [][]string{{"ab"}, {"cd"}}})
				}
				idx++
			}
		}
	}
	if s.PreSuf {
		// the same around whole groups: single entries of <= 3 group tokens, and (prefix, suffix) pairs of <= 2
		for _, e := range enumEntriesFlags(groupTokens, 3, s.Flags) {
			if idx%n == shard {
				visit("G", Prog{Lines: [][]string{e}})
			}
			idx++
		}
		gs := enumEntriesFlags(groupTokens, 2, s.Flags)
		for _, e1 := range gs {
			for _, e2 := range gs {
				if idx%n == shard {
					visit("G", Prog{Prefix: strings.Join(e1, ""), Suffix: strings.Join(e2, ""), Lines: [][]string{{"ab"}, {"cd"}}})
				}
				idx++
			}
		}
	}
	if s.Struct2 > 0 {
		core := map[string]bool{}
		for _, l := range structLines {
			core[l] = true
		}
		enumSeq(len(structLines2), s.Struct2, func(_ int, seq []int) {
			ls := make([]string, len(seq))
			extra, entry := false, false
			for i, x := range seq {
				ls[i] = structLines2[x]
				extra = extra || !core[ls[i]]
				entry = entry || !strings.HasPrefix(strings.TrimSpace(ls[i]), "##!") && strings.TrimSpace(ls[i]) != ""
			}
			if !extra || !entry || !wellFormedBody(ls) {
				return
			}
			emit("B2", tokLines(ls), fewHeaders[:1])
		})
	}
	return idx
}

// tokLines splits structural lines into tokens so that shrinking can simplify them.
func tokLines(ls []string) [][]string {
	out := make([][]string, len(ls))
	for i, l := range ls {
		switch l {
		case "b|c":
			out[i] = []string{"b", "|", "c"}
		case "ab":
			out[i] = []string{"a", "b"}
		default:
			out[i] = []string{l}
		}
	}
	return out
}

// mixedPositions builds stratum C: an entry that exercised a rewrite placed at structural positions.
func mixedPositions(e []string) [][][]string {
	d := func(s string) []string { return []string{s} }
	return [][][]string{
		{e, d("##!=>"), d("a")},                                                // single line before a marker
		{d("a"), d("##!=>"), e},                                                // after a marker
		{d("##!> assemble"), e, d("##!<"), d("b")},                             // in a nested block beside a sibling
		{d("##!> assemble"), e, d("c"), d("##!=>"), d("a"), d("##!<"), d("b")}, // nested, concatenated
		{e, d("##!=< x"), d("##!=> x"), d("##!=> x")},                          // stored and used twice
		{e, d("b"), d("##!=< x"), d("a"), d("##!=> x")},                        // stored alternation appended
	}
}

// shrinkProg greedily minimises p while fails(p) stays true and the program stays in the domain.
func shrinkProg(p Prog, valid func(Prog) bool, fails func(Prog) bool) Prog {
	for {
		changed := false
		try := func(q Prog) bool {
			if !valid(q) || !fails(q) {
				return false
			}
			p = q
			changed = true
			return true
		}
		// a body without entries, or header text that is more than a letter: try the prefix / suffix text as the only entry instead
		if !hasEntry(p.Lines) || len(p.Prefix) > 1 || len(p.Suffix) > 1 {
			for _, t := range []string{p.Prefix, p.Suffix, p.Prefix + p.Suffix, strings.TrimSpace(p.Prefix) + strings.TrimSpace(p.Suffix)} {
				if t != "" {
					q := p.clone()
					q.Prefix, q.Suffix, q.Lines = "", "", [][]string{tokenise(t)}
					if try(q) {
						break
					}
				}
			}
		}
		// header
		if p.Flags != "" {
			// the s flag changes what a dot means: in a program with a dot, dropping it gives another program, not a
			// smaller one (a failure that is still there may be another failure, e.g. a known one)
			keepS := strings.Contains(p.Flags, "s") && hasDot(p)
			q := p.clone()
			q.Flags = ""
			if keepS {
				q.Flags = "s"
			}
			if (q.Flags == p.Flags || !try(q)) && len(p.Flags) > 1 && !keepS {
				for _, f := range []string{p.Flags[:1], p.Flags[1:]} {
					q := p.clone()
					q.Flags = f
					if try(q) {
						break
					}
				}
			}
		}
		if p.Prefix != "" {
			q := p.clone()
			q.Prefix = ""
			if !try(q) && p.Prefix != "x" {
				q := p.clone()
				q.Prefix = "x"
				try(q)
			}
		}
		if p.Suffix != "" {
			q := p.clone()
			q.Suffix = ""
			if !try(q) && p.Suffix != "y" {
				q := p.clone()
				q.Suffix = "y"
				try(q)
			}
		}
		// drop lines
		for i := 0; i < len(p.Lines); i++ {
			q := p.clone()
			q.Lines = append(q.Lines[:i], q.Lines[i+1:]...)
			if try(q) {
				i--
			}
		}
		// drop pairs of lines (block start + end)
		for i := 0; i < len(p.Lines); i++ {
			for j := i + 1; j < len(p.Lines); j++ {
				q := p.clone()
				q.Lines = append(append(append([][]string{}, q.Lines[:i]...), q.Lines[i+1:j]...), q.Lines[j+1:]...)
				if try(q) {
					i--
					break
				}
			}
		}
		// drop tokens
		for i := 0; i < len(p.Lines); i++ {
			for j := 0; j < len(p.Lines[i]) && len(p.Lines[i]) > 1; j++ {
				q := p.clone()
				q.Lines[i] = append(q.Lines[i][:j], q.Lines[i][j+1:]...)
				if try(q) {
					j--
				}
			}
		}
		// drop pairs of tokens of one line (group / class delimiters)
		for i := 0; i < len(p.Lines); i++ {
			for j := 0; j < len(p.Lines[i]); j++ {
				for k := j + 1; k < len(p.Lines[i]) && len(p.Lines[i]) > 2; k++ {
					q := p.clone()
					l := q.Lines[i]
					q.Lines[i] = append(append(append([]string{}, l[:j]...), l[j+1:k]...), l[k+1:]...)
					if try(q) {
						k = j
					}
				}
			}
		}
		// drop the first / last token of every entry line at once (shared context)
		isEntry := func(l []string) bool { return !(len(l) == 1 && strings.HasPrefix(l[0], "##!")) }
		for _, first := range []bool{true, false} {
			for {
				q := p.clone()
				ok := false
				for i, l := range q.Lines {
					if !isEntry(l) || len(l) < 2 {
						continue
					}
					ok = true
					if first {
						q.Lines[i] = l[1:]
					} else {
						q.Lines[i] = l[:len(l)-1]
					}
				}
				if !ok || !try(q) {
					break
				}
			}
		}
		// simplify tokens
		simpler := map[string]string{"ab": "a", "b": "a", "c": "a", "a-c": "a", "!-~": "a", "{2}": "?", "+": "?", "*": "?", "(": "(?:",
			`\"`: `"`, `\Q"\E`: `"`, `\x22`: `"`, `\x5c`: `\\`, `\x{2019}`: "é", "\x7f": "\x01", `\D`: `\s`, `\S`: ".", `\W`: `\s`, `\n`: `\s`,
			"##!> cmdline windows": "##!> cmdline unix", "  a": "a", "a~": "aa", "b@": "aa", "{{d}}b": "aa", "aa": "a"}
		for i := 0; i < len(p.Lines); i++ {
			for j := 0; j < len(p.Lines[i]); j++ {
				if s, ok := simpler[p.Lines[i][j]]; ok {
					q := p.clone()
					q.Lines[i][j] = s
					try(q)
				}
			}
		}
		if !changed {
			return p
		}
	}
}

// hasDot: an unescaped dot somewhere in the program (entries, prefix, suffix)
func hasDot(p Prog) bool {
	dot := func(t string) bool {
		for i := 0; i < len(t); i++ {
			if t[i] == '\\' {
				i++
			} else if t[i] == '.' {
				return true
			}
		}
		return false
	}
	if dot(p.Prefix) || dot(p.Suffix) {
		return true
	}
	for _, l := range p.Lines {
		if dot(strings.Join(l, "")) {
			return true
		}
	}
	return false
}

func hasEntry(lines [][]string) bool {
	for _, l := range lines {
		if s := strings.Join(l, ""); s != "" && !strings.HasPrefix(s, "##!") {
			return true
		}
	}
	return false
}

// tokenise splits text into tokens of the (largest) entry alphabet, longest match first.
func tokenise(t string) []string {
	var out []string
	for len(t) > 0 {
		best := t[:1]
		for _, tok := range c02Tokens {
			if len(tok) > len(best) && strings.HasPrefix(t, tok) {
				best = tok
			}
		}
		out = append(out, best)
		t = t[len(best):]
	}
	return out
}

// shrinkAllowFlags: set by checks whose domain admits inline flag groups (C02)
var shrinkAllowFlags bool

// validProg: the program stays inside the explored domain (used by the shrinker).
func validProg(p Prog) bool {
	if len(p.Lines) == 0 {
		return false
	}
	var ls []string
	for _, l := range p.Lines {
		s := strings.Join(l, "")
		ls = append(ls, s)
	}
	if !wellFormedBody(ls) {
		return false
	}
	// entries outside cmdline blocks must be valid entries
	depthCmd := []bool{false}
	for _, s := range ls {
		switch {
		case s == "##!> assemble":
			depthCmd = append(depthCmd, false)
		case strings.HasPrefix(s, "##!> cmdline"):
			depthCmd = append(depthCmd, true)
		case s == "##!<":
			depthCmd = depthCmd[:len(depthCmd)-1]
		case strings.HasPrefix(s, "##!="):
		default:
			if !depthCmd[len(depthCmd)-1] && !validEntryFlags(s, shrinkAllowFlags) {
				return false
			}
			if depthCmd[len(depthCmd)-1] && (s == "" || s[0] == ' ') {
				return false
			}
		}
	}
	if strings.Contains(p.Flags, "i") && !isASCIIProg(p.Lines) {
		return false
	}
	return true
}

var _ = core.Hash
