package checks

import (
	"fmt"
	"os"
	"path/filepath"
	"sort"
	"strings"

	"github.com/coreruleset/crs-toolchain/v2/zz_verif/core"
	"github.com/coreruleset/crs-toolchain/v2/zz_verif/inproc"
	"github.com/coreruleset/crs-toolchain/v2/zz_verif/ref"
	"github.com/coreruleset/crs-toolchain/v2/zz_verif/rx"
)

func init() { Registry["C05"] = C05 }

// include files of C05 (name -> text). "both" exists in the include and the exclude directory with different content.
var c05Files = ref.Files{
	"plain":         "foo\nbar\n",
	"messy":         "##! a comment\n\n  foo\n\tbar|baz\n   \n",
	"pre":           "##!^ p+\nfoo\nbar\n",
	"suf":           "##!$ s?\nfoo\nbar\n",
	"presuf":        "##!^ p+\n##!$ s?\nfoo\nbar\n",
	"owndef":        "##!> define d [0-9]{2}\n{{d}}x\nbar\n",
	"samedef":       "##!> define n inner\n{{n}}a\nbar\n",
	"leak":          "##!> define leak secret\nfoo\n",
	"usesouter":     "a{{n}}b\nfoo\n",
	"depth2":        "one\n##!> include plain\ntwo\n",
	"depth3":        "zero\n##!> include depth2\n##!> include pre\n",
	"empty":         "",
	"withblock":     "##!> assemble\nab\n##!=>\ncd\n##!<\nef\n",
	"both":          "fromincludedir\n",
	"onlyexcl":      "", // placeholder: lives in the exclude directory only
	"flagged":       "##!+ i\nfoo\n",
	"defprefix":     "##!> define sep [/x]\n##!^ {{sep}}+\n##!$ {{sep}}\nbin\netc\n",
	"samedefprefix": "##!> define n inner\n##!^ {{n}}\nfoo\nbar\n",
	"dleft":         "l1\n##!> include plain\n",
	"dright":        "r1\n##!> include plain\n",
	"diamond":       "##!> include dleft\n##!=>\n##!> include dright\n",
	"twice":         "##!> include plain\n##!=>\n##!> include plain\n",
	"words.v2":      "foo\nbar\n", // a dot in the base name is not an extension
	"shell-4.0":     "##!^ p+\nls\n",
	"trailing":      "foo  \nselect \n",    // white space at the end of an entry is part of the entry, also on the last line
	"trailingnonl":  "\n\nfoo\nselect\t ",  // ... and without a final newline, after leading blank lines
	"trailingblank": "foo \nbar\n\n  \n\n", // blank lines at the end of the file
	// a file with its own prefix / suffix that begins and ends with files that have their own
	"pair":  "##!^ <\n##!$ >\n##!> include presuf\n##!> include pre\n",
	"mixed": "##!^ <\n##!> include presuf\nmid\n##!> include suf\n",
	"inner": "##!$ >\n##!> include presuf\n",
}

func c05Big() string {
	var sb strings.Builder
	for i := 0; i < 900; i++ {
		fmt.Fprintf(&sb, "w%04dxxxxxxxxxxxxxxxx\n", i)
	}
	return sb.String()
}

func c05Tree() core.Tree {
	t := c01Tree()
	for n, txt := range c05Files {
		if n == "onlyexcl" {
			continue
		}
		t["regex-assembly/include/"+n+".ra"] = txt
	}
	t["regex-assembly/exclude/both.ra"] = "fromexcludedir\n"
	t["regex-assembly/exclude/onlyexcl.ra"] = "fromexcludeonly\nfoo\n"
	return t
}

// what the model reads for each name (include directory wins)
func c05ModelFiles() ref.Files {
	f := ref.Files{}
	for n, t := range c05Files {
		f[n] = t
	}
	f["onlyexcl"] = "fromexcludeonly\nfoo\n"
	return f
}

// c05GenLines: line kinds of the generated include files (all files of <= n lines are explored).
var c05GenLines = []string{"foo", "ba[rz]", "##!^ p+", "##!$ s?", "##!> define d x+", "{{d}}y", "##! c", "", "  ind", "##!> include plain", "##!=>", "##!> assemble", "##!<", "{{n}}", "sel ", "\tx\t"}

type c05Case struct {
	File   string `json:"file"`
	Pos    int    `json:"position"`
	Ext    bool   `json:"with_extension"`
	Header int    `json:"includer_header"`
	Text   string `json:"generated_file_text,omitempty"` // File == "gen": the include file is written for the case
}

var c05Headers = [][]string{
	{},
	{"##!> define n outer", "##!+ i", "{{n}}z", "{{leak}}"},
	{"##!^ hp", "##!$ hs"},
}

// build returns the including program A and the hand-inlined program B.
func (c c05Case) build(block []string) (a, b string) {
	name := c.File
	if c.Ext {
		name += ".ra"
	}
	inc := []string{"##!> include " + name}
	wrap := func(x []string) []string {
		switch c.Pos {
		case 0: // top level, first
			return append(append([]string{}, x...), "tail1", "tail2")
		case 1: // top level, middle
			return append(append([]string{"head"}, x...), "tail")
		case 2: // top level, last
			return append([]string{"head1", "head2"}, x...)
		case 3: // alone
			return x
		case 4: // inside assemble, before the marker
			return append(append([]string{"##!> assemble"}, x...), "##!=>", "after", "##!<", "sibling")
		case 5: // inside assemble, after the marker
			return append(append([]string{"##!> assemble", "before", "##!=>"}, x...), "##!<", "sibling")
		case 6: // inside cmdline
			return append(append([]string{"##!> cmdline unix"}, x...), "ls", "##!<")
		default: // the same file twice, in two concatenation segments
			return append(append(append([]string{}, x...), "##!=>"), x...)
		}
	}
	h := c05Headers[c.Header]
	a = strings.Join(append(append([]string{}, h...), wrap(inc)...), "\n") + "\n"
	b = strings.Join(append(append([]string{}, h...), wrap(block)...), "\n") + "\n"
	return
}

type c05Res struct {
	Case   c05Case     `json:"case"`
	A      string      `json:"including_program"`
	B      string      `json:"inlined_program"`
	OutA   []string    `json:"outcomes_including"`
	OutB   []string    `json:"outcomes_inlined"`
	Clause string      `json:"clause"`
	W      *rx.Witness `json:"witness,omitempty"`
	Harn   string      `json:"harness,omitempty"`
	Bytes  bool        `json:"byte_identical"`
}

type c05Out struct {
	Cases, Execs, PStates, PTrans, ByteEqual, Inconclusive int
	Fails                                                  []c05Res
}

// sameOutcomeSets: every outcome of A has a language-equal partner in B and vice versa.
func sameOutcomeSets(oa, ob []string, st *c05Out) (ok bool, w *rx.Witness, harn string) {
	match := func(x string, ys []string) bool {
		for _, y := range ys {
			if x == y {
				return true
			}
			if strings.HasPrefix(x, "ok:") != strings.HasPrefix(y, "ok:") {
				continue
			}
			if !strings.HasPrefix(x, "ok:") {
				return true // both failed
			}
			res, confirmed, err := rx.Decide(x[3:], y[3:], rx.Equiv, rx.Options{ExcludeVT: true})
			if err != nil {
				continue
			}
			st.PStates += res.States
			st.PTrans += res.Transitions
			if res.Inconclusive {
				st.Inconclusive++
				return true
			}
			if res.Holds {
				return true
			}
			if !confirmed {
				harn = fmt.Sprintf("witness %+v not confirmed for %q vs %q", res.Witness, x, y)
			}
			w = res.Witness
		}
		return false
	}
	for _, x := range oa {
		if !match(x, ob) {
			return false, w, harn
		}
	}
	for _, y := range ob {
		if !match(y, oa) {
			return false, w, harn
		}
	}
	return true, nil, ""
}

// c05Outcomes: every schedule with <= 1 deviation at any map range, and (bound 2) every schedule with
// <= 2 deviations at the ranges other than the directive-pattern loop of parseLine (C03 explores that one deeper).
func c05Outcomes(bound int, f func() string) ([]string, int) {
	core.SiteFilter = nil
	outs, _, ex := outcomesUnder(1, f)
	if bound >= 2 {
		core.SiteFilter = func(site string) bool { return !strings.HasSuffix(site, ":parseLine") }
		o2, _, e2 := outcomesUnder(bound, f)
		core.SiteFilter = nil
		ex += e2
		for _, o := range o2 {
			dup := false
			for _, p := range outs {
				dup = dup || p == o
			}
			if !dup {
				outs = append(outs, o)
			}
		}
	}
	return outs, ex
}

func C05(r *core.Run) {
	if !r.IsWorker() && !core.Instrumented() {
		r.HarnessError("C05 needs the map-range instrumented build (vtool-sched)")
		return
	}
	dir := ""
	if !r.IsWorker() {
		dir = core.Scratch("c05")
		defer os.RemoveAll(dir)
	}
	var names []string
	for n := range c05ModelFiles() {
		names = append(names, n)
	}
	sort.Strings(names)
	var cases []c05Case
	for _, n := range names {
		for pos := 0; pos < 8; pos++ {
			for _, ext := range []bool{false, true} {
				for h := range c05Headers {
					cases = append(cases, c05Case{File: n, Pos: pos, Ext: ext, Header: h})
				}
			}
		}
	}
	genStart := len(cases)
	enumSeq(len(c05GenLines), r.Pick(2, 3), func(_ int, seq []int) {
		var sb strings.Builder
		for _, i := range seq {
			sb.WriteString(c05GenLines[i] + "\n")
		}
		for pos := 0; pos < 8; pos++ {
			for h := range c05Headers {
				if len(seq) == 3 && (pos == 1 || pos == 2 || h == 2) {
					continue // three-line files: positions first/alone/in blocks/twice, headers none and definitions+flag
				}
				cases = append(cases, c05Case{Text: sb.String(), File: "gen", Pos: pos, Header: h})
			}
		}
	})
	if r.Degraded() {
		cases = cases[:genStart]
	}
	bound := r.Pick(1, 2)
	type in struct {
		Dir   string
		Cases []c05Case
		Bound int
	}
	outs, deaths := core.Parallel(r, "sweep", in{dir, cases, bound}, r.Workers, func(in in, shard, n int, emit func(c05Out)) {
		wd := filepath.Join(in.Dir, fmt.Sprint("w", shard))
		c05Tree().Materialise(wd)
		root := inproc.NewRoot(wd)
		files := c05ModelFiles()
		var out c05Out
		for i, c := range in.Cases {
			if i%n != shard {
				continue
			}
			r.Inflight(fmt.Sprintf("%+v", c))
			if c.File == "gen" {
				files["gen"] = c.Text
				if err := os.WriteFile(filepath.Join(wd, "regex-assembly/include/gen.ra"), []byte(c.Text), 0o644); err != nil {
					panic(err)
				}
			}
			inl, err := ref.Inline(files, c.File, 0)
			out.Cases++
			if err == ref.ErrFlagsInInclude {
				a, _ := c.build(nil)
				oa, ex := c05Outcomes(in.Bound, func() string { return root.Generate(a).String() })
				out.Execs += ex
				for _, o := range oa {
					if strings.HasPrefix(o, "ok:") {
						out.Fails = append(out.Fails, c05Res{Case: c, A: a, OutA: oa, Clause: "flags-rejected"})
						break
					}
				}
				continue
			}
			if err != nil {
				out.Fails = append(out.Fails, c05Res{Case: c, Harn: "model cannot inline: " + err.Error()})
				continue
			}
			a, b := c.build(inl.Block())
			oa, ea := c05Outcomes(in.Bound, func() string { return root.Generate(a).String() })
			ob, eb := c05Outcomes(in.Bound, func() string { return root.Generate(b).String() })
			out.Execs += ea + eb
			ok, w, harn := sameOutcomeSets(oa, ob, &out)
			if len(oa) == 1 && len(ob) == 1 && oa[0] == ob[0] {
				out.ByteEqual++
			}
			if !ok {
				clause := "include-equals-inline"
				fa, fb := !strings.HasPrefix(oa[0], "ok:"), !strings.HasPrefix(ob[0], "ok:")
				if fa != fb {
					clause = "same-failure"
				}
				if c.File == "both" || c.File == "onlyexcl" {
					clause = "lookup-order"
				}
				out.Fails = append(out.Fails, c05Res{Case: c, A: a, B: b, OutA: oa, OutB: ob, Clause: clause, W: w, Harn: harn})
			}
		}
		emit(out)
	})
	// conformance through the CLI: every case's including program, once
	type confRes struct {
		A       string
		In, Cli string
		Agree   bool
		Start   string // result when started in the decoy directory, if it differs
	}
	conf, d2 := core.Parallel(r, "conf", in{dir, cases, 0}, r.Workers, func(in in, shard, n int, emit func(confRes)) {
		wd := filepath.Join(in.Dir, fmt.Sprint("c", shard))
		c05Tree().Materialise(wd)
		root := inproc.NewRoot(wd)
		// the CLI is started in a directory that holds files and directories named like the include files
		decoys := core.Tree{"gen.ra": "DECOY\n", "include/plain.ra": "DECOY\n", "regex-assembly.txt": "x\n"}
		for name := range c05ModelFiles() {
			if len(name)%2 == 0 {
				decoys[name+".ra"] = "DECOY\n"
			} else {
				decoys[name+".ra/"] = ""
			}
		}
		cwd := wd + "-startdir"
		decoys.Materialise(cwd)
		for i, c := range in.Cases {
			if i%n != shard || c.Ext {
				continue
			}
			a, _ := c.build(nil)
			if c.File == "gen" {
				os.WriteFile(filepath.Join(wd, "regex-assembly/include/gen.ra"), []byte(c.Text), 0o644)
			}
			o := root.Generate(a)
			cli := core.RunCLI(r.Crs, wd, a, nil, "-d", wd, "regex", "generate", "-")
			res := confRes{A: a, In: o.String(), Cli: cliClass(cli), Agree: agreeCLI(o, cli)}
			if other := core.RunCLI(r.Crs, cwd, a, nil, "-d", wd, "regex", "generate", "-"); cliClass(other) != cliClass(cli) {
				res.Start = cliClass(other)
			}
			emit(res)
		}
	})
	deaths = append(deaths, d2...)
	if r.IsWorker() {
		return
	}
	for _, d := range deaths {
		r.HarnessError("worker %s/%d %s on %q: %s", d.Stage, d.Shard, d.Kind, d.Case, tailStr(d.Log, 300))
	}
	// an include file with more text than a reader may think of as large (19 800 bytes, 900 entries), and a small
	// control: the including program and the typed-in program must print the same bytes, at every position
	bigRuns := 0
	{
		wd := filepath.Join(dir, "big")
		t := c05Tree()
		t["regex-assembly/include/big.ra"] = c05Big()
		t["regex-assembly/include/bigpre.ra"] = "##!^ p+\n" + c05Big()
		t["regex-assembly/include/nestbig.ra"] = "first\n##!> include big\nlast\n"
		t.Materialise(wd)
		files := c05ModelFiles()
		files["big"], files["bigpre"], files["nestbig"] = t["regex-assembly/include/big.ra"], t["regex-assembly/include/bigpre.ra"], t["regex-assembly/include/nestbig.ra"]
		for _, name := range []string{"big", "bigpre", "nestbig"} {
			inl, err := ref.Inline(files, name, 0)
			if err != nil {
				r.HarnessError("reference cannot inline %s: %v", name, err)
				continue
			}
			for pos := 0; pos < 8; pos++ {
				c := c05Case{File: name, Pos: pos}
				a, b := c.build(inl.Block())
				ra := core.RunCLI(r.Crs, wd, a, nil, "-d", wd, "regex", "generate", "-")
				rb := core.RunCLI(r.Crs, wd, b, nil, "-d", wd, "regex", "generate", "-")
				bigRuns += 2
				if cliClass(ra) != cliClass(rb) {
					r.Report(core.Violation{Clause: "include-equals-inline", Key: fmt.Sprintf("file=%s position=%d", name, pos),
						What: fmt.Sprintf("including %s.ra (%d bytes) at position %d gives %s, its lines typed in place give %s", name, len(files[name]), pos, clip([]string{cliClass(ra)}, 160), clip([]string{cliClass(rb)}, 160))})
				}
			}
		}
	}
	r.Cov["large_include_files_x_positions_through_cli"] = bigRuns
	validated := 0
	startSeen := 0
	for _, c := range conf {
		if c.Agree {
			validated++
		} else {
			r.HarnessError("in-process and CLI disagree on %q: %s vs %s", c.A, c.In, c.Cli)
		}
		if c.Start != "" {
			if startSeen++; startSeen <= 3 {
				r.Report(core.Violation{Clause: "lookup-order", Key: "start directory: " + c.A, What: fmt.Sprintf("program %q gives %s when the tool is started in the root but %s when it is started in a directory that holds files named like the include files", c.A, clip([]string{c.Cli}, 120), clip([]string{c.Start}, 120)), Repro: reproGenerate(c.A)})
			}
		}
	}
	var tot c05Out
	for _, o := range outs {
		tot.Cases += o.Cases
		tot.Execs += o.Execs
		tot.PStates += o.PStates
		tot.PTrans += o.PTrans
		tot.ByteEqual += o.ByteEqual
		tot.Inconclusive += o.Inconclusive
		tot.Fails = append(tot.Fails, o.Fails...)
	}
	// one violation per (clause, file, position, header); the spelling with extension only when the plain one passes
	seen := map[string]bool{}
	sort.Slice(tot.Fails, func(i, j int) bool { return fmt.Sprint(tot.Fails[i].Case) < fmt.Sprint(tot.Fails[j].Case) })
	for _, f := range tot.Fails {
		if f.Harn != "" {
			r.HarnessError("%s (%+v)", f.Harn, f.Case)
			continue
		}
		key := fmt.Sprintf("file=%s position=%d header=%d", f.Case.File, f.Case.Pos, f.Case.Header)
		if f.Case.File == "gen" {
			key = fmt.Sprintf("file=%q position=%d header=%d", f.Case.Text, f.Case.Pos, f.Case.Header)
		}
		if seen[f.Clause+key] {
			continue
		}
		seen[f.Clause+key] = true
		what := fmt.Sprintf("including %q gives %q but typing the file's lines in place (%q) gives %q", f.A, clip(f.OutA, 120), f.B, clip(f.OutB, 120))
		if f.Clause == "flags-rejected" {
			what = fmt.Sprintf("include file with a flags line is accepted: %q -> %q", f.A, f.OutA)
		}
		r.Report(core.Violation{Clause: f.Clause, Key: key, What: what, Detail: f, Repro: reproGenerate(f.A)})
	}
	r.Cov["evaluations"] = tot.Execs
	r.Cov["states"] = tot.PStates + tot.Cases
	r.Cov["transitions"] = tot.PTrans + tot.Execs
	r.Cov["cases"] = tot.Cases
	r.Cov["byte_identical_cases"] = tot.ByteEqual
	r.Cov["distinct_nontrivial"] = tot.Cases
	r.Cov["traces_validated_against_impl"] = validated
	r.Cov["exhaustive"] = tot.Inconclusive == 0 && len(deaths) == 0
	r.Cov["bound"] = map[string]any{"files": len(names), "generated_files": fmt.Sprintf("all files of <= %d lines over %d line kinds", r.Pick(2, 3), len(c05GenLines)), "positions": 8, "spellings": 2, "includer_headers": len(c05Headers), "schedule_deviations": bound}
	r.Cov["rule"] = "full cross product files (a hand-written menu plus every generated include file up to the line bound) x positions x name spelling x includer header; for each case the including program A and the hand-inlined program B (reference model ref.Inline) are both generated by the real code under every map-iteration schedule with <= bound deviations and their outcome sets must be pairwise language-equal (product-automaton search) or fail together"
	r.Cov["samples"] = []any{cases[0], cases[len(cases)/2], cases[len(cases)-1]}
	r.Assume = append(r.Assume, "differential oracle: program B contains no include, so the comparison isolates the include mechanism; B's own compilation is C01's business")
}
