package checks

import (
	"fmt"
	"os"
	"path/filepath"
	"sort"
	"strings"

	"github.com/coreruleset/crs-toolchain/v2/zz_verif/core"
	"github.com/coreruleset/crs-toolchain/v2/zz_verif/inproc"
)

func init() { Registry["C12"] = C12 }

type c12Shape struct {
	Name   string
	Arg    string
	Before string // file text before the operand
	After  string // file text after the operand
	// MayRefuse: a layout the tool is free not to support; when update refuses it (and leaves the file alone) the round
	// trip says nothing, when update accepts it compare has to follow
	MayRefuse bool
}

func c12Shapes() []c12Shape {
	mk := func(name, arg, file string) c12Shape {
		i := strings.Index(file, "OPERAND")
		return c12Shape{name, arg, file[:i], file[i+len("OPERAND"):], false}
	}
	crlf := func(s string) string { return strings.ReplaceAll(s, "\n", "\r\n") }
	plain := "SecRule ARGS \"@rx OPERAND\" \\\n    \"id:123456,\\\n    phase:2,\\\n    t:none\"\n"
	neg := strings.Replace(plain, "@rx", "!@rx", 1)
	chain := "SecRule ARGS \"@rx first\" \\\n    \"id:123456,\\\n    chain\"\n    SecRule ARGS \"@rx OPERAND\" \\\n        \"t:none\"\n"
	neigh := "# see id:123456 and \"@rx foo\" \\\nSecRule ARGS \"@rx other\" \\\n    \"id:1234567,\\\n    t:none\"\n\n" + plain + "\nSecRule ARGS \"@rx third\" \\\n    \"id:123457,\\\n    t:none\"\n"
	return []c12Shape{
		mk("plain", "123456", plain),
		mk("negated", "123456", neg),
		mk("crlf", "123456", crlf(plain)),
		mk("no final newline", "123456", strings.TrimSuffix(plain, "\n")),
		mk("chain link", "123456-chain1", chain),
		mk("neighbours", "123456", neigh),
		mk("single line file", "123456", "SecRule ARGS \"@rx OPERAND\" \\\nid:123456"),
		func() c12Shape {
			sh := mk("id on the second action line", "123456", "SecRule ARGS \"@rx OPERAND\" \\\n    \"phase:2,\\\n    id:123456,\\\n    t:none\"\n")
			sh.MayRefuse = true
			return sh
		}(),
		func() c12Shape {
			sh := mk("operator on the line after SecRule", "123456", "SecRule ARGS \\\n    \"@rx OPERAND\" \\\n    \"id:123456,\\\n    t:none\"\n")
			sh.MayRefuse = true
			return sh
		}(),
	}
}

type c12Fail struct {
	Clause  string `json:"clause"`
	Program string `json:"program"`
	Shape   string `json:"shape"`
	Regex   string `json:"generated"`
	Stored  string `json:"stored_operand"`
	Why     string `json:"why"`
	Mode    string `json:"mode,omitempty"`
}

func C12(r *core.Run) {
	dir := ""
	if !r.IsWorker() {
		dir = core.Scratch("c12")
		defer os.RemoveAll(dir)
	}
	type in struct {
		Dir    string
		MaxTok int
	}
	type out struct {
		Programs, States, Transitions, Edits int
		Fails                                []c12Fail
	}
	spec := in{dir, r.Pick(2, 3)}
	if r.Degraded() || !inproc.ShimAvailable {
		spec = in{dir, 1}
	}
	run := func(in in, shard, n int, useCLI bool, maxProgs int, o *out) {
		wd := filepath.Join(in.Dir, fmt.Sprint("w", shard, useCLI))
		core.Tree{"regex-assembly/toolchain.yaml": c01Yaml, "regex-assembly/include/": "", "rules/": ""}.Materialise(wd)
		root := inproc.NewRoot(wd)
		conf := filepath.Join(wd, "rules/REQUEST-123-TEST.conf")
		// programs: every entry of <= MaxTok tokens whose output carries a character that matters for embedding, plus the C11 menu as literals
		seen := map[string]bool{}
		var progs [][2]string // program text, generated regex
		var forced [][2]string
		add := func(text string) {
			g := root.Generate(text)
			if g.Kind != inproc.OK || g.Out == "" || seen[g.Out] {
				return
			}
			if !strings.ContainsAny(g.Out, "\"\\$ ") && !strings.Contains(g.Out, "@rx") {
				return
			}
			seen[g.Out] = true
			progs = append(progs, [2]string{text, g.Out})
		}
		// programs that are taken whatever they generate (also the empty expression); they come first
		force := func(text string) {
			if g := root.Generate(text); g.Kind == inproc.OK && !seen["\x00"+text] {
				seen["\x00"+text] = true
				forced = append(forced, [2]string{text, g.Out})
			}
		}
		for _, e := range enumEntries(c02Tokens, in.MaxTok) {
			add(strings.Join(e, "") + "\n")
		}
		longs := []int{49, 50, 51, 99, 100, 101, 150}
		if inproc.CLIMode || !inproc.ShimAvailable {
			longs = []int{51}
		}
		for _, n := range longs {
			add(strings.Repeat("abcdefghi\"", n/10) + strings.Repeat("z", n%10) + "\n")
		}
		for _, t := range []string{`a"@rx b`, `a" \\b`, `"@rx `, `x" \\`, ` a b `, `a$1b`, `^a|b$`, `"`, `\\`, `a"`, `"a`, `" \\" \\`, `"!@rx q" \\`, "id:123456"} {
			add(t + "\n")
		}
		// a byte order mark before the first entry; programs that generate the empty expression
		for _, t := range []string{"\ufefffoo\nbar\n", "\ufeff##! c\nfoo\n", "##! only a comment\n", "##!> define unused x\n\n", ""} {
			force(t)
		}
		progs = append(forced, progs...)
		idx := 0
		for _, p := range progs {
			for _, sh := range c12Shapes() {
				if idx++; idx%n != shard {
					continue
				}
				if maxProgs > 0 && o.Programs >= maxProgs {
					return
				}
				o.Programs++
				text, regex := p[0], p[1]
				r.Inflight(sh.Name + ":" + text)
				if useCLI {
					// "equals generate's output": the generate command itself is asked
					os.WriteFile(filepath.Join(wd, "regex-assembly", sh.Arg+".ra"), []byte(text), 0o644)
					if g := core.RunCLI(r.Crs, wd, "", nil, "-d", wd, "regex", "generate", sh.Arg); g.Exit == 0 {
						regex = g.Stdout
					}
				}
				fail := func(clause, why, stored, mode string) {
					o.Fails = append(o.Fails, c12Fail{clause, text, sh.Name, regex, stored, why, mode})
				}
				os.WriteFile(filepath.Join(wd, "regex-assembly", sh.Arg+".ra"), []byte(text), 0o644)
				write := func(op string) { os.WriteFile(conf, []byte(sh.Before+op+sh.After), 0o644) }
				read := func() string { b, _ := os.ReadFile(conf); return string(b) }
				update := func() (ok bool) {
					o.Transitions++
					if useCLI {
						return core.RunCLI(r.Crs, wd, "", nil, "-d", wd, "regex", "update", sh.Arg).Exit == 0
					}
					return root.Update(sh.Arg).Kind == inproc.OK
				}
				// compare in one of four modes: returns (reported unchanged, failed/nonzero, stdout)
				compare := func(mode string) (unchanged bool, nonzero bool, so string) {
					o.Transitions++
					if useCLI {
						args := []string{"-d", wd}
						if strings.Contains(mode, "github") {
							args = append(args, "-o", "github")
						}
						args = append(args, "regex", "compare")
						if strings.Contains(mode, "all") {
							args = append(args, "--all")
						} else {
							args = append(args, sh.Arg)
						}
						res := core.RunCLI(r.Crs, wd, "", nil, args...)
						return strings.Contains(res.Stdout, "has not changed"), res.Exit != 0, res.Stdout
					}
					var res inproc.CmdResult
					switch mode {
					case "single":
						res = root.Compare(sh.Arg, false)
					case "single github":
						res = root.Compare(sh.Arg, true)
					case "all":
						res = root.CompareAll(false)
					default:
						res = root.CompareAll(true)
					}
					return strings.Contains(res.Stdout, "has not changed"), res.Kind != inproc.OK, res.Stdout
				}
				modes := []string{"single", "single github", "all", "all github"}
				// U from a stale operand
				// what was stored before: ordinary text, nothing, text that also occurs earlier in the line, white space first
				stale := []string{"STALE", "", "ARGS", "rx", "  x", "S"}[idx%6]
				write(stale)
				o.States++
				if !update() {
					if sh.MayRefuse && read() == sh.Before+stale+sh.After {
						continue
					}
					fail("stored-equals-generated", "update fails", stale, "")
					continue
				}
				want := sh.Before + regex + sh.After
				if got := read(); got != want {
					fail("stored-equals-generated", "the operand stored by update is not the generated regex byte for byte (or other bytes changed)", got, "")
					continue
				}
				o.States++
				for _, m := range modes {
					if unchanged, nonzero, so := compare(m); !unchanged || nonzero {
						fail("update-then-compare-unchanged", fmt.Sprintf("compare after update: unchanged=%v failed=%v stdout=%q", unchanged, nonzero, tailStr(so, 120)), regex, m)
					}
				}
				if !update() || read() != want {
					fail("update-twice-noop", "a second update changes the rules file", read(), "")
					continue
				}
				// E(i,b): every one-byte edit of the stored operand must be detected
				var edits []string
				for i := 0; i <= len(regex); i++ {
					for _, b := range []byte{'X', '"', ' ', '\\'} {
						if i < len(regex) && regex[i] != b {
							edits = append(edits, regex[:i]+string(b)+regex[i+1:]) // overwrite
						}
						edits = append(edits, regex[:i]+string(b)+regex[i:]) // insert
					}
					if i < len(regex) && len(regex) > 1 {
						edits = append(edits, regex[:i]+regex[i+1:]) // delete
					}
				}
				for ei, edited := range edits {
					i := ei
					core.Tick()
					{
						if edited == regex {
							continue
						}
						write(edited)
						o.Edits++
						o.States++
						for _, m := range modes {
							unchanged, nonzero, so := compare(m)
							detected := !unchanged && (nonzero || strings.Contains(so, "has changed"))
							if m != "all" {
								detected = !unchanged && nonzero
							}
							if !detected {
								clause := map[string]string{"single": "edit-detected-text", "single github": "edit-detected-github", "all": "edit-detected-all", "all github": "edit-detected-all"}[m]
								fail(clause, fmt.Sprintf("stored operand differs from the generated regex (edit #%d) but compare (%s) does not report it: unchanged=%v failed=%v", i, m, unchanged, nonzero), edited, m)
							}
						}
					}
				}
				os.Remove(filepath.Join(wd, "regex-assembly", sh.Arg+".ra"))
			}
		}
	}
	gensOf := func(root *inproc.Root, progs map[string]string) []string {
		var g []string
		for _, a := range []string{"123456", "123456-chain1", "123456-chain2", "123457"} {
			g = append(g, root.Generate(progs[a]).Out)
		}
		return g
	}
	runAll := func(in in, shard, n int, o *out) {
		wd := filepath.Join(in.Dir, fmt.Sprint("a", shard))
		core.Tree{"regex-assembly/toolchain.yaml": c01Yaml, "regex-assembly/include/": "", "rules/": ""}.Materialise(wd)
		root := inproc.NewRoot(wd)
		conf := filepath.Join(wd, "rules/REQUEST-123-TEST.conf")
		texts := []string{"homer\nmarge\n", "bart|lisa\n", `a"b` + "\n", "x y \n", "^q$\n", "mag[gie]+\n"}
		idx := 0
		for _, p0 := range texts {
			for _, p1 := range texts {
				for _, p2 := range texts {
					if idx++; idx%n != shard {
						continue
					}
					r.Inflight("all:" + p0 + p1 + p2)
					file := rulesFile(ruleSpec{ID: "123456", Regex: "STALE0", Chain: []string{"STALE1", "STALE2"}}, ruleSpec{ID: "123457", Regex: "STALE3"})
					os.WriteFile(conf, []byte(file), 0o644)
					progs := map[string]string{"123456": p0, "123456-chain1": p1, "123456-chain2": p2, "123457": p1}
					want := file
					for i, a := range []string{"123456", "123456-chain1", "123456-chain2", "123457"} {
						os.WriteFile(filepath.Join(wd, "regex-assembly", a+".ra"), []byte(progs[a]), 0o644)
						g := root.Generate(progs[a])
						want = strings.Replace(want, fmt.Sprintf("STALE%d", i), g.Out, 1)
					}
					o.Programs++
					o.Transitions += 2
					o.States++
					up := root.UpdateAll()
					got, _ := os.ReadFile(conf)
					fail := func(clause, why string) {
						o.Fails = append(o.Fails, c12Fail{clause, p0 + "|" + p1 + "|" + p2, "update --all over 123456, 123456-chain1, 123456-chain2, 123457", "", string(got), why, "all"})
					}
					if up.Kind != inproc.OK || string(got) != want {
						fail("stored-equals-generated", "after update --all the stored operands are not the generated regexes of their own assembly files")
						continue
					}
					if c := root.CompareAll(true); c.Kind != inproc.OK || strings.Count(c.Stdout, "has not changed") != 4 {
						fail("update-then-compare-unchanged", "compare --all (github) after update --all does not report four unchanged rules: "+tailStr(c.Stdout, 200))
					}
					for _, a := range []string{"123456", "123456-chain1", "123456-chain2", "123457"} {
						o.Transitions++
						if c := root.Compare(a, false); c.Kind != inproc.OK || !strings.Contains(c.Stdout, "has not changed") {
							fail("update-then-compare-unchanged", "compare "+a+" after update --all reports a change")
						}
					}
					// the output mode in other spellings: either rejected, or it is the GitHub mode (which fails on a stale rule)
					if idx%9 == 0 {
						stale := rulesFile(ruleSpec{ID: "123456", Regex: gensOf(root, progs)[0] + "Z", Chain: []string{gensOf(root, progs)[1], gensOf(root, progs)[2]}}, ruleSpec{ID: "123457", Regex: gensOf(root, progs)[3]})
						os.WriteFile(conf, []byte(stale), 0o644)
						for _, sp := range []string{"GitHub", "GITHUB", "Github", "github ", "gitHub"} {
							o.Transitions++
							if res := core.RunCLI(r.Crs, wd, "", nil, "-d", wd, "-o", sp, "regex", "compare", "--all"); res.Exit == 0 {
								fail("edit-detected-all", fmt.Sprintf("`-o %s regex compare --all` exits 0 although a stored operand differs from the generated regex", sp))
							}
						}
						os.WriteFile(conf, []byte(want), 0o644)
					}
					if up2 := root.UpdateAll(); up2.Kind != inproc.OK {
						fail("update-twice-noop", "second update --all fails")
					} else if again, _ := os.ReadFile(conf); string(again) != want {
						fail("update-twice-noop", "second update --all changes the rules file")
					}
					// E: one stored operand at a time differs by one byte; compare --all must notice whichever rule it is
					// (first, middle or last file of the walk), in both output modes
					var gens []string
					for _, a := range []string{"123456", "123456-chain1", "123456-chain2", "123457"} {
						gens = append(gens, root.Generate(progs[a]).Out)
					}
					for ei := range gens {
						g := append([]string{}, gens...)
						g[ei] += "Z"
						edited := rulesFile(ruleSpec{ID: "123456", Regex: g[0], Chain: []string{g[1], g[2]}}, ruleSpec{ID: "123457", Regex: g[3]})
						os.WriteFile(conf, []byte(edited), 0o644)
						got = []byte(edited)
						o.Edits++
						o.States++
						o.Transitions += 2
						if c := root.CompareAll(false); c.Kind == inproc.OK && !strings.Contains(c.Stdout, "has changed") {
							fail("edit-detected-all", fmt.Sprintf("stored operand #%d of 4 differs from the generated regex but compare --all reports no change", ei))
						}
						if c := root.CompareAll(true); c.Kind == inproc.OK {
							fail("edit-detected-all", fmt.Sprintf("stored operand #%d of 4 differs from the generated regex but compare --all in GitHub mode succeeds", ei))
						}
					}
				}
			}
		}
		// where the assembly files are: each of the four files in one of four directories below regex-assembly
		// (also directories called like the include and exclude directories). Whatever compare --all looks at,
		// update --all must have brought up to date.
		places := []string{"", "group", "include", "group/exclude"}
		ids := []string{"123456", "123456-chain1", "123456-chain2", "123457"}
		for mask := 1; mask < 256; mask++ {
			if idx++; idx%n != shard {
				continue
			}
			os.RemoveAll(filepath.Join(wd, "regex-assembly"))
			t := core.Tree{"regex-assembly/toolchain.yaml": c01Yaml, "regex-assembly/include/": "", "regex-assembly/exclude/": ""}
			var where []string
			ptexts := append(append([]string{}, texts[:3]...), "##!> cmdline unix\nls@\nrm -f\n##!<\n")
			for i, a := range ids {
				pl := places[(mask>>(2*i))&3]
				where = append(where, pl+"/"+a)
				t[filepath.Join("regex-assembly", pl, a+".ra")] = ptexts[i]
			}
			t.Materialise(wd)
			file := rulesFile(ruleSpec{ID: "123456", Regex: "STALE0", Chain: []string{"STALE1", "STALE2"}}, ruleSpec{ID: "123457", Regex: "STALE3"})
			os.WriteFile(conf, []byte(file), 0o644)
			r.Inflight(fmt.Sprint("placement ", where))
			o.Programs++
			o.States++
			o.Transitions += 3
			up := root.UpdateAll()
			got, _ := os.ReadFile(conf)
			fail := func(clause, why string) {
				o.Fails = append(o.Fails, c12Fail{clause, strings.Join(where, " "), "update --all with the assembly files at " + strings.Join(where, ", "), "", string(got), why, "all"})
			}
			if up.Kind != inproc.OK {
				continue // a layout the tool refuses is outside the round trip
			}
			// what update stored is what generate prints for the file, wherever the file stands (the cmdline block
			// makes the configuration visible in the operand)
			if strings.Contains(string(got), "STALE3") == false {
				if g := root.Generate(ptexts[3]); g.Kind == inproc.OK && !strings.Contains(string(got), `"@rx `+g.Out+`"`) {
					fail("stored-equals-generated", "the operand stored by update --all for "+where[3]+" is not what generate prints for that file: "+tailStr(g.Out, 120))
				}
			}
			if c := root.CompareAll(true); c.Kind != inproc.OK || strings.Contains(c.Stdout, "has changed") {
				fail("update-then-compare-unchanged", "compare --all (github) right after a successful update --all reports a changed rule: "+tailStr(c.Stdout, 200))
			}
			if c := root.CompareAll(false); strings.Contains(c.Stdout, "has changed") {
				fail("update-then-compare-unchanged", "compare --all right after a successful update --all reports a changed rule: "+tailStr(c.Stdout, 200))
			}
		}
		// how the rules file is called: whatever file update --all writes to, compare has to read
		for _, name := range []string{"REQUEST-123-TEST.conf.example", "REQUEST-123-TEST.conf~", "REQUEST-123-TEST", "REQUEST-123-TEST.CONF", "x-123-y"} {
			if idx++; idx%n != shard {
				continue
			}
			os.RemoveAll(filepath.Join(wd, "regex-assembly"))
			os.RemoveAll(filepath.Join(wd, "rules"))
			t := core.Tree{"regex-assembly/toolchain.yaml": c01Yaml, "regex-assembly/include/": "", "regex-assembly/exclude/": ""}
			for i, a := range ids {
				t["regex-assembly/"+a+".ra"] = texts[i]
			}
			file := rulesFile(ruleSpec{ID: "123456", Regex: "STALE0", Chain: []string{"STALE1", "STALE2"}}, ruleSpec{ID: "123457", Regex: "STALE3"})
			t["rules/"+name] = file
			t.Materialise(wd)
			r.Inflight("rules file name " + name)
			o.Programs++
			o.States++
			o.Transitions += 4
			up := root.UpdateAll()
			got, _ := os.ReadFile(filepath.Join(wd, "rules", name))
			fail := func(clause, why string) {
				o.Fails = append(o.Fails, c12Fail{clause, "rules/" + name, "update --all with the rules file called " + name, "", string(got), why, "all"})
			}
			if up.Kind != inproc.OK || string(got) == file {
				continue // a name the tool does not take for a rules file is outside the round trip
			}
			if c := root.CompareAll(true); c.Kind != inproc.OK || strings.Contains(c.Stdout, "has changed") {
				fail("update-then-compare-unchanged", "compare --all (github) right after a successful update --all fails or reports a changed rule: "+tailStr(c.Stdout, 200))
			}
			if c := root.Compare("123456", false); c.Kind != inproc.OK || !strings.Contains(c.Stdout, "has not changed") {
				fail("update-then-compare-unchanged", "compare 123456 right after a successful update --all fails or reports a change: "+tailStr(c.Stdout, 200))
			}
			if c := root.Compare("123457", true); c.Kind != inproc.OK {
				fail("update-then-compare-unchanged", "compare 123457 (github) right after a successful update --all fails: "+tailStr(c.Stdout, 200))
			}
		}
		os.RemoveAll(filepath.Join(wd, "regex-assembly"))
		os.RemoveAll(filepath.Join(wd, "rules"))
	}
	outs, deaths := core.Parallel(r, "machine", spec, r.Workers, func(in in, shard, n int, emit func(out)) {
		var o out
		run(in, shard, n, false, 0, &o)
		runAll(in, shard, n, &o)
		emit(o)
	})
	// the same machine through the real CLI for a slice of the programs
	confOuts, d2 := core.Parallel(r, "conf", in{dir, 1}, r.Workers, func(in in, shard, n int, emit func(out)) {
		var o out
		run(in, shard, n, true, r.Pick(3, 10), &o)
		emit(o)
	})
	deaths = append(deaths, d2...)
	if r.IsWorker() {
		return
	}
	for _, d := range deaths {
		r.HarnessError("worker %s/%d %s on %q: %s", d.Stage, d.Shard, d.Kind, d.Case, tailStr(d.Log, 300))
	}
	var tot, ctot out
	for _, o := range outs {
		tot.Programs += o.Programs
		tot.States += o.States
		tot.Transitions += o.Transitions
		tot.Edits += o.Edits
		tot.Fails = append(tot.Fails, o.Fails...)
	}
	for _, o := range confOuts {
		ctot.Programs += o.Programs
		ctot.Transitions += o.Transitions
		tot.Fails = append(tot.Fails, o.Fails...)
	}
	sort.SliceStable(tot.Fails, func(i, j int) bool {
		if len(tot.Fails[i].Regex) != len(tot.Fails[j].Regex) {
			return len(tot.Fails[i].Regex) < len(tot.Fails[j].Regex)
		}
		return tot.Fails[i].Program < tot.Fails[j].Program
	})
	seen := map[string]int{}
	for _, f := range tot.Fails {
		k := f.Clause + "|" + f.Shape + "|" + f.Mode
		if seen[k]++; seen[k] > 1 {
			continue
		}
		r.Report(core.Violation{Clause: f.Clause, Key: fmt.Sprintf("program=%q shape=%s mode=%s stored=%q", f.Program, f.Shape, f.Mode, f.Stored),
			What: fmt.Sprintf("program %q (generates %q), rules file shape %q: %s", f.Program, f.Regex, f.Shape, f.Why), Detail: f})
	}
	r.Cov["evaluations"] = tot.Transitions + ctot.Transitions
	r.Cov["states"] = tot.States
	r.Cov["transitions"] = tot.Transitions
	r.Cov["program_shape_pairs"] = tot.Programs
	r.Cov["one_byte_edits"] = tot.Edits
	r.Cov["failing"] = len(tot.Fails)
	r.Cov["distinct_nontrivial"] = tot.Programs
	r.Cov["traces_validated_against_impl"] = ctot.Transitions
	r.Cov["exhaustive"] = len(deaths) == 0
	r.Cov["bound"] = map[string]any{"entry_tokens": spec.MaxTok, "shapes": len(c12Shapes()), "edits": "overwrite, insert (bytes X \" space \\) and delete at every position", "compare_modes": 4}
	r.Cov["rule"] = "state machine on one tree with operations U (update), C (compare: single, single github, --all, --all github) and E(i,b) (overwrite byte i of the stored operand): for every program whose distinct output contains a quote, backslash, dollar, blank or @rx (entries of <= n tokens + menu) x 7 rules-file shapes: stale -> U -> C x4 (unchanged, exit 0) -> U (no-op) -> for every byte position and 4 bytes E then C x4 (change reported); states = rules-file contents visited, transitions = command executions; a slice replayed through the real CLI"
	r.Cov["samples"] = []any{map[string]string{"program": `a"@rx b`, "shape": "crlf"}, map[string]string{"program": `[\s!-~]\\"`, "shape": "chain link"}}
}
