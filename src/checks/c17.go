package checks

import (
	"fmt"
	"os"
	"path/filepath"
	"regexp"
	"sort"
	"strings"

	"github.com/coreruleset/crs-toolchain/v2/chore"
	crsctx "github.com/coreruleset/crs-toolchain/v2/context"
	"github.com/coreruleset/crs-toolchain/v2/util"
	"github.com/coreruleset/crs-toolchain/v2/zz_verif/core"
	"github.com/coreruleset/crs-toolchain/v2/zz_verif/inproc"
)

func init() { Registry["C17"] = C17 }

type c17Case struct {
	Cmd     string `json:"cmd"`
	N       int    `json:"line_length"`
	Pos     string `json:"position"` // first / middle / last
	FinalNL bool   `json:"final_newline"`
}

type c17Res struct {
	Case     c17Case `json:"case"`
	Outcome  string  `json:"outcome"` // complete / loud / silent-truncation / ...
	Why      string  `json:"why,omitempty"`
	OutBytes int     `json:"output_bytes"`
}

func c17Lengths(thorough bool) []int {
	set := map[int]bool{}
	lo, hi := 65528, 65546
	if thorough {
		lo, hi = 65500, 65600
	}
	for n := lo; n <= hi; n++ {
		set[n] = true
	}
	maxK := 17
	if thorough {
		maxK = 20
	}
	for k := 0; k <= maxK; k++ {
		for _, d := range []int{-1, 0, 1} {
			if v := (1 << k) + d; v >= 1 {
				set[v] = true
			}
		}
	}
	// beyond any "reasonable" fixed buffer somebody might configure
	set[1<<20+1] = true
	set[1<<21+1] = true
	var out []int
	for n := range set {
		out = append(out, n)
	}
	sort.Ints(out)
	return out
}

// place puts the long line first / in the middle / last among sentinel lines.
func c17Place(pos, long string, s1, s2 string, finalNL bool) string {
	var ls []string
	switch pos {
	case "first":
		ls = []string{long, s1, s2}
	case "middle":
		ls = []string{s1, long, s2}
	default:
		ls = []string{s1, s2, long}
	}
	t := strings.Join(ls, "\n")
	if finalNL {
		t += "\n"
	}
	return t
}

var c17Cmds = []string{"generate segment", "format directive", "generate include pairs", "generate block", "compare", "generate definition", "generate definition repeated", "generate entry", "generate prefix and suffix lines", "format header without blank line", "generate standard input", "generate include", "generate include-except", "generate cmdline", "format", "renumber-tests", "update-copyright", "update"}

func C17(r *core.Run) {
	dir := ""
	if !r.IsWorker() {
		dir = core.Scratch("c17")
		defer os.RemoveAll(dir)
	}
	type in struct {
		Dir      string
		Thorough bool
	}
	type out struct {
		Cases, Complete, Loud int
		Bad                   []c17Res
	}
	eval := func(root *inproc.Root, ctx *crsctx.Context, c c17Case) c17Res {
		wd := root.Dir
		long := strings.Repeat("a", c.N)
		res := c17Res{Case: c}
		verdict := func(ok bool, failed bool, untouched bool, why string, n int) c17Res {
			res.OutBytes = n
			switch {
			case ok:
				res.Outcome = "complete"
			case failed && untouched:
				res.Outcome = "loud"
			case failed:
				res.Outcome = "failed-but-wrote"
				res.Why = why
			default:
				res.Outcome = "silent-truncation"
				res.Why = why
			}
			return res
		}
		matchAll := func(expr string, subjects ...string) (bool, string) {
			re, err := regexp.Compile(`\A(?:` + expr + `)\z`)
			if err != nil {
				return false, "output does not compile: " + err.Error()
			}
			for _, s := range subjects {
				if !re.MatchString(s) {
					return false, fmt.Sprintf("generated regex (%d bytes) does not match the %d-byte entry %.20q...", len(expr), len(s), s)
				}
			}
			return true, ""
		}
		switch c.Cmd {
		case "generate definition", "generate definition repeated":
			// the long line does not exist in the file: it is the result of expanding a definition
			def, use := "##!> define d "+long, "x{{d}}"
			if c.Cmd == "generate definition repeated" {
				k := 64
				def, use = "##!> define d "+strings.Repeat("a", c.N/k), "x"+strings.Repeat("{{d}}", k)+strings.Repeat("a", c.N%k)
			}
			o := root.Generate(def + "\n" + c17Place(c.Pos, use, "sentinelone", "sentineltwo", c.FinalNL))
			if o.Kind != inproc.OK {
				return verdict(false, true, true, "", 0)
			}
			ok, why := matchAll(o.Out, "x"+long, "sentinelone", "sentineltwo")
			return verdict(ok, false, true, why, len(o.Out))
		case "generate entry":
			o := root.Generate(c17Place(c.Pos, "x"+long, "sentinelone", "sentineltwo", c.FinalNL))
			if o.Kind != inproc.OK {
				return verdict(false, true, true, "", 0)
			}
			ok, why := matchAll(o.Out, "x"+long, "sentinelone", "sentineltwo")
			return verdict(ok, false, true, why, len(o.Out))
		case "generate prefix and suffix lines":
			// the long line is a prefix (positions first / middle) or suffix (last) line of a file that also has a definition
			hdr := "##!^ p" + long
			want := "p" + long + "sentinelone"
			if c.Pos == "last" {
				hdr, want = "##!$ s"+long, "sentineltwo"+"s"+long
			}
			o := root.Generate("##!> define d dd\n" + c17Place(c.Pos, hdr, "sentinelone", "sentineltwo", c.FinalNL))
			if o.Kind != inproc.OK {
				return verdict(false, true, true, "", 0)
			}
			ok, why := matchAll(o.Out, want)
			return verdict(ok, false, true, why, len(o.Out))
		case "format header without blank line":
			p := filepath.Join(wd, "regex-assembly/123456.ra")
			x := raHeader1 + "\n" + raHeader2 + "\n" + c17Place(c.Pos, "x"+long, "alpha", "omega", c.FinalNL)
			os.WriteFile(p, []byte(x), 0o644)
			fr := root.Format(p, false)
			b, _ := os.ReadFile(p)
			if fr.Kind != inproc.OK {
				return verdict(false, true, string(b) == x, "format failed but the file changed", len(b))
			}
			okLines := true
			for _, l := range []string{"x" + long, "alpha", "omega"} {
				okLines = okLines && strings.Contains("\n"+string(b), "\n"+l+"\n")
			}
			return verdict(okLines, false, true, fmt.Sprintf("formatted file has %d bytes, input %d: lines lost", len(b), len(x)), len(b))
		case "generate standard input":
			// the same through the real command, the text arriving on standard input
			cli := core.RunCLI(r.Crs, wd, c17Place(c.Pos, "x"+long, "sentinelone", "sentineltwo", c.FinalNL), nil, "-d", wd, "regex", "generate", "-")
			if cli.Exit != 0 {
				return verdict(false, true, true, "", 0)
			}
			ok, why := matchAll(cli.Stdout, "x"+long, "sentinelone", "sentineltwo")
			return verdict(ok, false, true, why, len(cli.Stdout))
		case "generate include":
			os.WriteFile(filepath.Join(wd, "regex-assembly/include/long.ra"), []byte(c17Place(c.Pos, "x"+long, "sentinelone", "sentineltwo", c.FinalNL)), 0o644)
			o := root.Generate("before\n##!> include long\nafter\n")
			if o.Kind != inproc.OK {
				return verdict(false, true, true, "", 0)
			}
			ok, why := matchAll(o.Out, "x"+long, "sentinelone", "sentineltwo", "before", "after")
			return verdict(ok, false, true, why, len(o.Out))
		case "generate include-except":
			// two long entries that differ only at their very end: excluding one must keep the other
			os.WriteFile(filepath.Join(wd, "regex-assembly/include/long.ra"), []byte(c17Place(c.Pos, "x"+long+"\nx"+long+"twin", "sentinelone", "sentineltwo", c.FinalNL)), 0o644)
			os.WriteFile(filepath.Join(wd, "regex-assembly/exclude/longex.ra"), []byte(c17Place(c.Pos, "y"+long+"\nx"+long+"twin", "sentineltwo", "unrelated", c.FinalNL)), 0o644)
			o := root.Generate("before\n##!> include-except long longex -- one uno\nafter\n")
			if o.Kind != inproc.OK {
				return verdict(false, true, true, "", 0)
			}
			ok, why := matchAll(o.Out, "x"+long, "sentineluno", "before", "after")
			if ok {
				if m, _ := matchAll(o.Out, "sentineltwo"); m {
					ok, why = false, "excluded entry after the long line of the exclude file survives"
				} else if m, _ := matchAll(o.Out, "x"+long+"twin"); m {
					ok, why = false, "the excluded long entry survives"
				}
			}
			return verdict(ok, false, true, why, len(o.Out))
		case "generate include pairs":
			// suffix replacement walks the included lines once more
			os.WriteFile(filepath.Join(wd, "regex-assembly/include/long.ra"), []byte(c17Place(c.Pos, "x"+long+"\nw", "sentinelone", "sentineltwo", c.FinalNL)), 0o644)
			o := root.Generate("before\n##!> include long -- one uno aa bb\nafter\n")
			if o.Kind != inproc.OK {
				return verdict(false, true, true, "", 0)
			}
			entry := "x" + long
			if len(long) >= 2 {
				entry = "x" + long[:len(long)-2] + "bb"
			}
			ok, why := matchAll(o.Out, entry, "w", "sentineluno", "sentineltwo", "before", "after")
			return verdict(ok, false, true, why, len(o.Out))
		case "generate segment":
			// the lines form a segment that a concatenation marker ends (top level and stored)
			o := root.Generate(c17Place(c.Pos, "x"+long, "sentinelone", "sentineltwo", true) + "##!=>\ntail\n##!=< keep\n" + c17Place(c.Pos, "y"+long, "sentinelone", "sentineltwo", true) + "##!=> keep" + map[bool]string{true: "\n", false: ""}[c.FinalNL])
			if o.Kind != inproc.OK {
				return verdict(false, true, true, "", 0)
			}
			ok, why := matchAll(o.Out, "y"+long+"x"+long+"tail", "sentinelone"+"sentineltwo"+"tail", "sentineltwo"+"sentinelone"+"tail")
			return verdict(ok, false, true, why, len(o.Out))
		case "generate block":
			// the long line inside a nested block, stored and used twice
			o := root.Generate("##!> assemble\n##!> assemble\n" + c17Place(c.Pos, "x"+long, "sentinelone", "sentineltwo", true) + "##!<\n##!=< keep\n##!=> keep\n##!=>\n##!=> keep\n##!<\ntail" + map[bool]string{true: "\n", false: ""}[c.FinalNL])
			if o.Kind != inproc.OK {
				return verdict(false, true, true, "", 0)
			}
			ok, why := matchAll(o.Out, "x"+long+"sentinelone", "sentineltwo"+"x"+long, "tail")
			return verdict(ok, false, true, why, len(o.Out))
		case "compare":
			// after update, compare must see the (long) stored operand as unchanged and a one-byte edit at its end as changed
			p := filepath.Join(wd, "rules/REQUEST-123-TEST.conf")
			rule := "SecRule ARGS \"@rx OLD\" \\\n    \"id:123456,\\\n    t:none\""
			x := c17Place(c.Pos, "# "+long, rule, "# tail", c.FinalNL)
			os.WriteFile(p, []byte(x), 0o644)
			os.WriteFile(filepath.Join(wd, "regex-assembly/123456.ra"), []byte("y"+long+"\n"), 0o644)
			if ur := root.Update("123456"); ur.Kind != inproc.OK {
				b, _ := os.ReadFile(p)
				return verdict(false, true, string(b) == x, "update failed but the file changed", len(b))
			}
			c1 := root.Compare("123456", true)
			b, _ := os.ReadFile(p)
			edited := strings.Replace(string(b), long+"\" \\", long+"Z\" \\", 1)
			os.WriteFile(p, []byte(edited), 0o644)
			c2 := root.Compare("123456", true)
			if edited == string(b) {
				return verdict(false, false, true, "stored operand not found in the rules file after update", len(b))
			}
			return verdict(c1.Kind == inproc.OK && c2.Kind != inproc.OK, false, true, fmt.Sprintf("compare after update: %s; compare after editing the last byte of the operand: %s", c1.Kind, c2.Kind), len(b))
		case "generate cmdline":
			// the word is exactly n bytes long (n = 1: a one-byte word)
			o := root.Generate("##!> cmdline unix\n" + c17Place(c.Pos, long, "ls", "cat", c.FinalNL) + "\n##!<\n")
			if o.Kind != inproc.OK {
				return verdict(false, true, true, "", 0)
			}
			ok, why := matchAll(o.Out, long, "ls", "cat")
			if ok {
				if m, _ := matchAll(o.Out, ""); m {
					ok, why = false, "the generated regex accepts the empty string"
				}
			}
			return verdict(ok, false, true, why, len(o.Out))
		case "format directive":
			// long directive lines (definition, prefix, suffix, include with pairs) are rebuilt by the formatter
			p := filepath.Join(wd, "regex-assembly/123456.ra")
			x := raHeader1 + "\n" + raHeader2 + "\n\n" + c17Place(c.Pos, "##!> define d "+long+"\n##!^ "+long+"z\n##!$ y"+long+"\n##!> include inc -- a "+long, "foo", "##! tail", c.FinalNL)
			os.WriteFile(p, []byte(x), 0o644)
			fr := root.Format(p, false)
			b, _ := os.ReadFile(p)
			if fr.Kind != inproc.OK {
				return verdict(false, true, string(b) == x, "format failed but the file changed", len(b))
			}
			return verdict(sameLines(x, string(b)), false, true, fmt.Sprintf("formatted file has %d bytes, input %d: directive text lost", len(b), len(x)), len(b))
		case "format":
			p := filepath.Join(wd, "regex-assembly/123456.ra")
			x := raHeader1 + "\n" + raHeader2 + "\n\n" + c17Place(c.Pos, "  x"+long+"\n##! between\n  x"+long, "##!> assemble", "  ##!<", c.FinalNL)
			os.WriteFile(p, []byte(x), 0o644)
			fr := root.Format(p, false)
			b, _ := os.ReadFile(p)
			if fr.Kind != inproc.OK {
				return verdict(false, true, string(b) == x, "format failed but the file changed", len(b))
			}
			return verdict(sameLines(x, string(b)), false, true, fmt.Sprintf("formatted file has %d bytes, input %d: lines lost", len(b), len(x)), len(b))
		case "renumber-tests":
			p := filepath.Join(wd, "tests/regression/tests/REQUEST-123-TEST/123456.yaml")
			x := c17Place(c.Pos, "    data: "+long, "  - test_id: 7", "  - test_id: 9", c.FinalNL)
			os.WriteFile(p, []byte(x), 0o644)
			rr := inproc.Guard(func() (string, error) { return "", util.NewTestRenumberer().RenumberTest(p, false, ctx) })
			b, _ := os.ReadFile(p)
			if rr.Kind != inproc.OK {
				return verdict(false, true, string(b) == x, "renumber failed but the file changed", len(b))
			}
			want := strings.TrimRight(strings.Replace(strings.Replace(x, "test_id: 7", "test_id: 1", 1), "test_id: 9", "test_id: 2", 1), "\n") + "\n"
			return verdict(string(b) == want, false, true, fmt.Sprintf("renumbered file has %d bytes, expected %d", len(b), len(want)), len(b))
		case "update-copyright":
			p := filepath.Join(wd, "rules/REQUEST-901-LONG.conf")
			x := c17Place(c.Pos, "# "+long, "# OWASP CRS ver.4.0.0", "SecComponentSignature \"OWASP_CRS/4.0.0\"", c.FinalNL)
			os.WriteFile(p, []byte(x), 0o644)
			ur := inproc.Guard(func() (string, error) { chore.UpdateCopyright(ctx, "4.9.9", "2031"); return "", nil })
			b, _ := os.ReadFile(p)
			os.Remove(p)
			if ur.Kind != inproc.OK {
				return verdict(false, true, string(b) == x, "update-copyright failed but the file changed", len(b))
			}
			want := strings.TrimSuffix(strings.ReplaceAll(x, "4.0.0", "4.9.9"), "\n") + "\n"
			return verdict(string(b) == want, false, true, fmt.Sprintf("rewritten file has %d bytes, expected %d", len(b), len(want)), len(b))
		default: // update: long line in the rules file and a long generated regex
			p := filepath.Join(wd, "rules/REQUEST-123-TEST.conf")
			rule := "SecRule ARGS \"@rx OLD\" \\\n    \"id:123456,\\\n    t:none\""
			x := c17Place(c.Pos, "# "+long, rule, "# tail", c.FinalNL)
			os.WriteFile(p, []byte(x), 0o644)
			os.WriteFile(filepath.Join(wd, "regex-assembly/123456.ra"), []byte("y"+long+"\n"), 0o644)
			ur := root.Update("123456")
			b, _ := os.ReadFile(p)
			if ur.Kind != inproc.OK {
				return verdict(false, true, string(b) == x, "update failed but the file changed", len(b))
			}
			want := strings.Replace(x, "@rx OLD", "@rx y"+long, 1)
			return verdict(string(b) == want, false, true, fmt.Sprintf("rules file has %d bytes, expected %d", len(b), len(want)), len(b))
		}
	}
	outs, deaths := core.Parallel(r, "sweep", in{dir, r.Thorough()}, r.Workers, func(in in, shard, n int, emit func(out)) {
		wd := filepath.Join(in.Dir, fmt.Sprint("w", shard))
		miniCRS().Materialise(wd)
		root := inproc.NewRoot(wd)
		ctx := crsctx.New(wd, "toolchain.yaml")
		var o out
		idx := 0
		for _, ln := range c17Lengths(in.Thorough) {
			for _, cmd := range c17Cmds {
				for _, pos := range []string{"first", "middle", "last"} {
					for _, fnl := range []bool{true, false} {
						if ln > 1<<18 && (pos != "middle" || !fnl || cmd == "generate cmdline") {
							continue
						}
						if idx++; idx%n != shard {
							continue
						}
						c := c17Case{cmd, ln, pos, fnl}
						r.Inflight(fmt.Sprintf("%+v", c))
						miniCRS().Materialise(wd)
						res := eval(root, ctx, c)
						o.Cases++
						switch res.Outcome {
						case "complete":
							o.Complete++
						case "loud":
							o.Loud++
						default:
							o.Bad = append(o.Bad, res)
						}
					}
				}
			}
		}
		emit(o)
	})
	// conformance: the 2^k lengths through the real CLI for generate and format
	type confRes struct {
		N     int
		Agree bool
		Why   string
	}
	conf, d2 := core.Parallel(r, "conf", in{dir, r.Thorough()}, r.Workers, func(in in, shard, n int, emit func(confRes)) {
		wd := filepath.Join(in.Dir, fmt.Sprint("c", shard))
		miniCRS().Materialise(wd)
		root := inproc.NewRoot(wd)
		idx := 0
		for k := 0; k <= 18; k++ {
			for _, d := range []int{-1, 0, 1} {
				ln := (1 << k) + d
				if idx++; idx%n != shard || ln < 1 {
					continue
				}
				text := c17Place("middle", "x"+strings.Repeat("a", ln), "sentinelone", "sentineltwo", true)
				o := root.Generate(text)
				cli := core.RunCLI(r.Crs, wd, text, nil, "-d", wd, "regex", "generate", "-")
				p := filepath.Join(wd, "regex-assembly/123456.ra")
				os.WriteFile(p, []byte(text), 0o644)
				fi := root.Format(p, false)
				a, _ := os.ReadFile(p)
				os.WriteFile(p, []byte(text), 0o644)
				fc := core.RunCLI(r.Crs, wd, "", nil, "-d", wd, "regex", "format", "123456")
				b, _ := os.ReadFile(p)
				emit(confRes{ln, agreeCLI(o, cli) && string(a) == string(b) && (fi.Kind == inproc.OK) == (fc.Exit == 0), fmt.Sprint(o.Kind, cli.Exit, len(o.Out), len(cli.Stdout), len(a), len(b))})
			}
		}
	})
	deaths = append(deaths, d2...)
	// large files made of many ordinary lines (with and without one long line among them), rewritten so that the
	// text grows, shrinks or keeps its length
	type bigRes struct {
		What string
		OK   bool
		Why  string
	}
	bigs, d3 := core.Parallel(r, "large", in{dir, r.Thorough()}, r.Workers, func(in in, shard, n int, emit func(bigRes)) {
		wd := filepath.Join(in.Dir, fmt.Sprint("b", shard))
		miniCRS().Materialise(wd)
		ctx := crsctx.New(wd, "toolchain.yaml")
		root := inproc.NewRoot(wd)
		idx := 0
		for _, blocks := range []int{10, 100, 400, 1000, 3000} {
			for _, long := range []int{0, 70000} {
				for _, v := range []string{"4.9.9", "4.10.0-rc1", "5"} {
					if idx++; idx%n != shard {
						continue
					}
					what := fmt.Sprintf("%d blocks, long line %d, version %s", blocks, long, v)
					r.Inflight("large " + what)
					// update-copyright
					var sb strings.Builder
					for i := 0; i < blocks; i++ {
						fmt.Fprintf(&sb, "# OWASP CRS ver.4.0.0\n# rule %d\nSecRule ARGS \"@rx x%d\" \\\n    \"id:%d,\\\n    ver:'OWASP_CRS/4.0.0',\\\n    t:none\"\nSecComponentSignature \"OWASP_CRS/4.0.0\"\n", i, i, 900000+i)
						if long > 0 && i == blocks/2 {
							sb.WriteString("# " + strings.Repeat("l", long) + "\n")
						}
					}
					x := sb.String()
					p := filepath.Join(wd, "rules/REQUEST-901-BIG.conf")
					os.WriteFile(p, []byte(x), 0o644)
					ur := inproc.Guard(func() (string, error) { chore.UpdateCopyright(ctx, v, "2031"); return "", nil })
					b, _ := os.ReadFile(p)
					os.Remove(p)
					if v == "5" {
						// not a version the command accepts through the CLI; the library call is only used with accepted ones
					} else if want := strings.ReplaceAll(x, "4.0.0", v); ur.Kind != inproc.OK && string(b) != x || ur.Kind == inproc.OK && string(b) != want {
						emit(bigRes{"update-copyright: " + what, false, fmt.Sprintf("%s; rewritten file has %d bytes / %d lines, expected %d bytes / %d lines", ur.Kind, len(b), strings.Count(string(b), "\n"), len(want), strings.Count(want, "\n"))})
					} else {
						emit(bigRes{"update-copyright: " + what, true, ""})
					}
					if v != "4.9.9" {
						continue
					}
					// generate: many entries (every entry must be matched), format: many lines, renumber: many tests
					var es, ys []string
					for i := 0; i < blocks; i++ {
						es = append(es, fmt.Sprintf("  entry%dx", i))
						ys = append(ys, fmt.Sprintf("  - test_id: %d", 7*i+3), "    desc: t")
						if long > 0 && i == blocks/2 {
							es = append(es, "y"+strings.Repeat("l", long))
							ys = append(ys, "    data: "+strings.Repeat("l", long))
						}
					}
					text := strings.Join(es, "\n") + "\n"
					if o := root.Generate(text); o.Kind == inproc.OK {
						re, err := regexp.Compile(`\A(?:` + o.Out + `)\z`)
						missed := 0
						for _, e := range es {
							if err == nil && !re.MatchString(strings.TrimSpace(e)) {
								missed++
							}
						}
						emit(bigRes{"generate: " + what, err == nil && missed == 0, fmt.Sprintf("%d of %d entries are not matched by the generated regex (%v)", missed, len(es), err)})
					}
					ra := filepath.Join(wd, "regex-assembly/123456.ra")
					os.WriteFile(ra, []byte(text), 0o644)
					if fr := root.Format(ra, false); fr.Kind == inproc.OK {
						fb, _ := os.ReadFile(ra)
						emit(bigRes{"format: " + what, sameLines(text, string(fb)), fmt.Sprintf("formatted file has %d lines, input %d", strings.Count(string(fb), "\n"), strings.Count(text, "\n"))})
					}
					yp := filepath.Join(wd, "tests/regression/tests/REQUEST-123-TEST/123456.yaml")
					y := strings.Join(ys, "\n") + "\n"
					os.WriteFile(yp, []byte(y), 0o644)
					if rr := inproc.Guard(func() (string, error) { return "", util.NewTestRenumberer().RenumberTest(yp, false, ctx) }); rr.Kind == inproc.OK {
						yb, _ := os.ReadFile(yp)
						ok := strings.Count(string(yb), "\n") == strings.Count(y, "\n") && strings.Contains(string(yb), fmt.Sprintf("test_id: %d\n", blocks)) && !strings.Contains(string(yb), fmt.Sprintf("test_id: %d\n", blocks+1))
						emit(bigRes{"renumber-tests: " + what, ok, fmt.Sprintf("renumbered file has %d lines, input %d, last id %d expected", strings.Count(string(yb), "\n"), strings.Count(y, "\n"), blocks)})
					}
				}
			}
		}
	})
	deaths = append(deaths, d3...)
	if r.IsWorker() {
		return
	}
	bigRuns := 0
	for _, b := range bigs {
		bigRuns++
		if !b.OK {
			r.Report(core.Violation{Clause: "complete-or-loud:large file", Key: b.What, What: b.What + ": " + b.Why, Detail: b})
		}
	}
	for _, d := range deaths {
		r.HarnessError("worker %s/%d %s on %q: %s", d.Stage, d.Shard, d.Kind, tailStr(d.Case, 80), tailStr(d.Log, 300))
	}
	validated := 0
	for _, c := range conf {
		if c.Agree {
			validated++
		} else {
			r.HarnessError("in-process and CLI disagree for line length %d: %s", c.N, c.Why)
		}
	}
	var tot out
	for _, o := range outs {
		tot.Cases += o.Cases
		tot.Complete += o.Complete
		tot.Loud += o.Loud
		tot.Bad = append(tot.Bad, o.Bad...)
	}
	// smallest failing length per command
	sort.Slice(tot.Bad, func(i, j int) bool { return tot.Bad[i].Case.N < tot.Bad[j].Case.N })
	first := map[string]c17Res{}
	count := map[string]int{}
	for _, b := range tot.Bad {
		k := b.Case.Cmd
		count[k]++
		if _, ok := first[k]; !ok {
			first[k] = b
		}
	}
	var ks []string
	for k := range first {
		ks = append(ks, k)
	}
	sort.Strings(ks)
	for _, k := range ks {
		b := first[k]
		r.Report(core.Violation{Clause: "complete-or-loud:" + k, Key: k,
			What:   fmt.Sprintf("%s with a line of %d bytes (%s, final newline %v): %s - %s; %d cases of this command fail, smallest length %d", k, b.Case.N, b.Case.Pos, b.Case.FinalNL, b.Outcome, b.Why, count[k], b.Case.N),
			Detail: map[string]any{"first": b, "failing_cases": count[k]}})
	}
	r.Cov["evaluations"] = tot.Cases
	r.Cov["states"] = tot.Cases
	r.Cov["transitions"] = tot.Cases
	r.Cov["large_file_runs"] = bigRuns
	r.Cov["complete"] = tot.Complete
	r.Cov["failed_loudly"] = tot.Loud
	r.Cov["silently_incomplete"] = len(tot.Bad)
	r.Cov["distinct_nontrivial"] = tot.Complete
	r.Cov["traces_validated_against_impl"] = validated
	r.Cov["exhaustive"] = len(deaths) == 0
	ls := c17Lengths(r.Thorough())
	r.Cov["bound"] = map[string]any{"lengths": len(ls), "window": []int{ls[0], ls[len(ls)-1]}, "commands": c17Cmds, "positions": 3, "final_newline": 2}
	r.Cov["rule"] = "one long line of n bytes (every n in the window around 65536 and 2^k, 2^k+-1) first / in the middle / last among sentinel lines, with and without final newline, as input of every line-oriented code path (entry, included file, include and exclude file of include-except, cmdline word, format, renumber-tests, update-copyright, update); oracle: the command fails without writing, or the long line is carried through and every sentinel after it is present (regex semantics for generate, bytes for rewritten files); the include-except case carries twin long entries that differ only at their end; stage large: files of 10..3000 blocks (with and without one long line) rewritten by update-copyright to longer / equal version text, and generate, format, renumber-tests over thousands of lines"
	r.Cov["samples"] = []any{c17Case{"generate include-except", 65536, "middle", false}, c17Case{"update-copyright", 1 << 17, "first", true}}
	r.Assume = append(r.Assume, "not all 2^20 lengths are enumerated: a complete window around the scanner limit plus power-of-two boundaries (cost is quadratic)")
}
