package checks

import (
	"fmt"
	"strings"

	"github.com/coreruleset/crs-toolchain/v2/zz_verif/core"
	"github.com/coreruleset/crs-toolchain/v2/zz_verif/inproc"
	"github.com/coreruleset/crs-toolchain/v2/zz_verif/ref"
	"github.com/coreruleset/crs-toolchain/v2/zz_verif/rx"
)

func init() { Registry["C01"] = C01 }

// configuration used by all C01 programs: small, pairwise different patterns; two of them contain a literal blank; the file also has keys the tool does not know
// (the blank of a pattern is part of the configured text, only a blank of a word means "white space")
const c01Yaml = "version: 2\npatterns:\n  future_pattern:\n    unix: 'x'\n  anti_evasion:\n    unix: '[ q]*'\n    windows: '[w]*'\n  anti_evasion_suffix:\n    unix: '\\s'\n    windows: '[ ;]'\n  anti_evasion_no_space_suffix:\n    unix: 'n'\n    windows: 'm'\n"

var c01Cfg = ref.CmdCfg{UnixEvasion: "[ q]*", UnixSuffix: `\s`, UnixNoSpace: "n", WindowsEvasion: "[w]*", WindowsSuffix: "[ ;]", WindowsNoSpace: "m"}

func c01Tree() core.Tree {
	return core.Tree{"regex-assembly/toolchain.yaml": c01Yaml, "regex-assembly/include/": "", "regex-assembly/exclude/": "",
		"regex-assembly/include/incd.ra": c01Files["incd"],
		// a file of the same name in the exclude directory must not shadow the include file
		"regex-assembly/exclude/incd.ra": "shadow\n"}
}

// c01Files: include files of the structural stratum (the file has a definition of its own with the name the programs use)
var c01Files = ref.Files{"incd": "##!> define d i\n{{d}}a\nyb\n"}

// c01Eval evaluates one program; nil = holds (or outside the model).
func c01Eval(root *inproc.Root, p Prog, st *pcStats) *pcFail {
	text := p.Text()
	resolved, err := ref.Resolve(text, c01Files)
	var want string
	if err == nil {
		want, err = ref.Plain(resolved, c01Cfg)
	}
	if err != nil {
		if st != nil {
			st.Outside++
		}
		return nil
	}
	o := root.Generate(text)
	if st != nil {
		st.Programs++
	}
	if o.Kind != inproc.OK {
		return &pcFail{P: p, Clause: "compiles", Kind: o.Kind, Ref: want, Out: o.Msg}
	}
	if st != nil {
		var es []string
		for _, l := range p.Lines {
			es = append(es, strings.Join(l, ""))
		}
		if o.Out != strings.Join(es, "|") {
			st.Nontrivial++
		}
	}
	if o.Out == want {
		return nil
	}
	res, confirmed, err := rx.Decide(o.Out, want, rx.Equiv, rx.Options{ExcludeVT: true})
	if err != nil {
		// the output does not parse as RE2 (the reference always does): the file did not compile to a usable regex
		return &pcFail{P: p, Clause: "compiles", Kind: "output-not-re2", Out: o.Out, Ref: want, Harness: ""}
	}
	if st != nil {
		st.PStates += res.States
		st.PTrans += res.Transitions
		if res.Inconclusive {
			st.Inconclusive++
		}
	}
	if res.Inconclusive || res.Holds {
		return nil
	}
	f := &pcFail{P: p, Clause: "lang-equal", Out: o.Out, Ref: want, W: res.Witness}
	if !confirmed {
		f.Harness = fmt.Sprintf("witness %+v not confirmed by regexp for out=%q ref=%q", *res.Witness, o.Out, want)
	}
	return f
}

func c01Spec(r *core.Run) sweepSpec {
	if r.Degraded() {
		return sweepSpec{Tokens: entryTokens, One: 2, Two: 1, StructLen: 4, FullHdr: 1}
	}
	if r.Thorough() {
		return sweepSpec{Tokens: entryTokens, One: 4, Two: 2, Three: true, StructLen: 6, Struct2: 5, PreSuf: true, Mixed: true, FullHdr: 2}
	}
	return sweepSpec{Tokens: entryTokens, One: 3, Two: 2, Three: false, StructLen: 5, Struct2: 4, PreSuf: true, Mixed: true, FullHdr: 2}
}

// stratum D: word sets that make the optimiser factor common prefixes and suffixes into several groups,
// placed in concatenation templates
var c01Words = []string{"bbc", "ddc", "xee", "xff", "ab", "ac", "bc", "abc", "xbc", "b", "abd", "cd"}

func c01StratumD(shard, n int, root *inproc.Root, visit func(stratum string, p Prog)) {
	d := func(s string) []string { return []string{s} }
	idx := 0
	var rec func(start int, cur []string)
	rec = func(start int, cur []string) {
		if len(cur) > 0 {
			var set [][]string
			for _, w := range cur {
				set = append(set, d(w))
			}
			cat := func(parts ...[][]string) [][]string {
				var out [][]string
				for _, p := range parts {
					out = append(out, p...)
				}
				return out
			}
			tpls := [][][]string{
				cat([][]string{d("p"), d("##!=>")}, set, [][]string{d("##!=>"), d("z")}),
				cat(set, [][]string{d("##!=>"), d("z")}),
				cat([][]string{d("p"), d("##!=>")}, set, [][]string{d("##!=>")}),
				cat(set, [][]string{d("##!=< x"), d("p"), d("##!=> x"), d("q"), d("##!=> x")}),
				cat([][]string{d("##!> assemble"), d("p"), d("##!=>")}, set, [][]string{d("##!=>"), d("z"), d("##!<"), d("w")}),
			}
			for _, t := range tpls {
				if idx++; idx%n == shard {
					visit("D", Prog{Lines: t})
				}
			}
		}
		if len(cur) == 4 {
			return
		}
		for i := start; i < len(c01Words); i++ {
			rec(i+1, append(append([]string{}, cur...), c01Words[i]))
		}
	}
	rec(0, nil)
}

// stratum E: cmdline blocks over a word menu that includes markers, escaped markers and verbatim lines
var c01CmdWords = []string{"a", "a.b", "a b", "a@", "a~", `a\@`, "'x|y", "''q'", "'[ab]+", "-1"}

func c01StratumE(shard, n int, root *inproc.Root, visit func(stratum string, p Prog)) {
	d := func(s string) []string { return []string{s} }
	idx := 0
	var rec func(start int, cur []string)
	rec = func(start int, cur []string) {
		if len(cur) > 0 {
			for _, shell := range []string{"unix", "windows"} {
				block := [][]string{d("##!> cmdline " + shell)}
				for _, w := range cur {
					block = append(block, d(w))
				}
				block = append(block, d("##!<"))
				tpls := [][][]string{
					block,
					append(append([][]string{}, block...), d("c")),
					append(append(append([][]string{d("##!> assemble"), d("p"), d("##!=>")}, block...), d("##!=>"), d("z"), d("##!<")), d("w")),
				}
				for _, t := range tpls {
					if idx++; idx%n == shard {
						visit("E", Prog{Lines: t})
					}
				}
			}
		}
		if len(cur) == 3 {
			return
		}
		for i := start; i < len(c01CmdWords); i++ {
			rec(i+1, append(append([]string{}, cur...), c01CmdWords[i]))
		}
	}
	rec(0, nil)
}

func C01(r *core.Run) {
	extra := func(shard, n int, root *inproc.Root, visit func(stratum string, p Prog)) {
		c01StratumD(shard, n, root, visit)
		c01StratumE(shard, n, root, visit)
	}
	if r.Degraded() {
		extra = c01StratumE
	}
	pc := progCheck{Name: "C01", Spec: c01Spec(r), Tree: c01Tree(), Eval: c01Eval, Extra: extra,
		ConfSpec: sweepSpec{Tokens: entryTokens, One: 2, StructLen: 3, FullHdr: 1}}
	res, cleanup := pc.run(r)
	defer cleanup()
	if r.Abandon() {
		return
	}
	if r.IsWorker() {
		return
	}
	for _, m := range res.Mins {
		what := fmt.Sprintf("program %q compiles to %q but its plain reading is %q", m.Key, m.Min.Out, m.Min.Ref)
		if m.Min.W != nil {
			what += fmt.Sprintf("; witness left=%q text=%q right=%q generated:%v plain:%v", m.Min.W.Left, m.Min.W.Text, m.Min.W.Right, m.Min.W.InA, m.Min.W.InB)
		}
		if m.Clause == "compiles" {
			what = fmt.Sprintf("well-formed program %q does not compile (%s: %s)", m.Key, m.Min.Kind, m.Min.Out)
		}
		r.Report(core.Violation{Clause: m.Clause, Key: m.Key, What: what,
			Detail: map[string]any{"min": m.Min, "programs_shrinking_to_this": m.Count, "toolchain_yaml": c01Yaml},
			Repro:  reproGenerate(m.Key)})
	}
	r.Cov["states"] = res.Stats.PStates
	r.Cov["transitions"] = res.Stats.PTrans
	r.Cov["inconclusive_pairs"] = res.Stats.Inconclusive
	r.Cov["rule"] = "strata A (1 entry <= One tokens, 2 entries <= Two tokens, 3 single-token entries) x headers, B (all well-formed bodies of <= StructLen lines over the structural alphabet), C (every rewritten entry at 6 structural positions), D (every set of <= 4 of 12 words with shared prefixes/suffixes in 5 concatenation templates), E (every set of <= 3 of 10 cmdline words incl. markers and verbatim lines x unix/windows x 3 templates); states/transitions = product-automaton states/transitions summed over all (output, plain reading) pairs that were not byte-identical; non-trivial = output differs from the naive alternation of the entries; B2 (bodies over the extended structural alphabet: comments, blank and indented lines, a second stored name, the other shell, header lines in odd places, include of a file with its own definition, definition and reference lines, marked cmdline words; includes and definitions are resolved by the reference before the plain reading), P (every pair of group-ish entries as prefix and suffix around a fixed body) and G (single entries and prefix/suffix pairs built from whole-group tokens); stratum U (entries of <= 2 tokens and pairs of single tokens over the upper-case escape classes \\S \\D \\W and their neighbours, under every flag setting)"
	r.Cov["samples"] = []any{
		Prog{Flags: "is", Prefix: "[xy]+", Suffix: `\b`, Lines: [][]string{{"a", "|", "b"}, {"[", "a-c", "]"}}}.Text(),
		Prog{Lines: tokLines([]string{"##!> assemble", "a", "##!=>", "b|c", "##!<", "ab"})}.Text(),
		Prog{Lines: mixedPositions([]string{`\s`, "+"})[4]}.Text(),
	}
	r.Assume = append(r.Assume,
		"language comparison = contextual full-match equivalence decided by product-automaton search over regexp/syntax programs, U+000B excluded; every witness re-validated with Go regexp",
		"reference model ref.Plain is the plain reading of the property statement",
		"in-process seam validated against the real CLI on the complete lower bound (entries <= 2 tokens x headers, bodies <= 3 lines)")
}
