package checks

import (
	"fmt"
	"os"
	"path/filepath"
	"sort"
	"strings"

	"github.com/coreruleset/crs-toolchain/v2/zz_verif/core"
)

func init() { Registry["C16"] = C16 }

// base tree: three rule assembly files (first / middle / last in walk order) in one rules file
func c16Base() core.Tree {
	t := miniCRS()
	t["regex-assembly/123458.ra"] = "last\nentry\n"
	// the first file of every --all run stores a name; no other file may see it
	t["regex-assembly/123450.ra"] = "sh\n##!=< shared\nared\n##!=> shared\n"
	t["rules/REQUEST-123-TEST.conf"] = rulesFile(
		ruleSpec{ID: "123450", Regex: "OLDSHARED"},
		ruleSpec{ID: "123456", Regex: "OLD"},
		ruleSpec{ID: "123457", Regex: "keep", Chain: []string{"OLDCHAIN"}},
		ruleSpec{ID: "123458", Regex: "OLDLAST"})
	delete(t, "regex-assembly/sub/111113.ra")
	delete(t, "rules/REQUEST-111-NEST.conf")
	return t
}

type c16Case struct {
	Fault  string    `json:"fault"`
	Where  string    `json:"where"`
	Cmd    string    `json:"cmd"`
	Args   []string  `json:"args"`
	Stdin  string    `json:"stdin,omitempty"`
	Tree   core.Tree `json:"-"`
	Faulty string    `json:"faulty_rule,omitempty"` // rule id whose result must not be reported
}

// assembly-side faults: one planted line (or include file)
var c16LineFaults = []struct{ Name, Line string }{
	{"include of a missing file", "##!> include nosuchfile"},
	{"include-except with a missing exclude file", "##!> include-except inc nosuchfile"},
	{"include-except with a missing exclude file after one that excludes everything", "##!> include-except inc everything nosuchfile"},
	{"include-except of an include file without entries with a missing exclude file", "##!> include-except noentries nosuchfile"},
	{"entry RE2 rejects", "a(b"},
	{"entry RE2 rejects (bad repeat)", "a**{"},
	{"unknown processor", "##!> frobnicate"},
	{"unknown processor with arguments", "##!> frobnicate one two"},
	{"unknown processor with a number", "##!> frobnicate 42"},
	{"definition without a value", "##!> define my-name"},
	{"definition with two values", "##!> define name a b"},
	{"include with a stray argument", "##!> include inc extra"},
	{"unknown cmdline type", "##!> cmdline beos"},
	{"cmdline without type", "##!> cmdline"},
	{"cmdline block with the type in capitals", "##!> cmdline UNIX\nls\n##!<"},
	{"cmdline block with the type capitalised", "##!> cmdline Windows\ndir\n##!<"},
	{"cmdline block with a number as type", "##!> cmdline 2\nls\n##!<"},
	{"cmdline block without type", "##!> cmdline\nls\n##!<"},
	{"cmdline block of unknown type", "##!> cmdline beos\nls\n##!<"},
	{"extra end marker", "##!<"},
	{"missing end marker", "##!> assemble"},
	{"unknown stored name", "##!=> neverstored"},
	{"stored name of another file", "##!=> shared"},
	{"store without name", "##!=<"},
	{"unsupported flag", "##!+ x"},
	{"unsupported flag (upper-case form of a supported one)", "##!+ I"},
	{"unsupported flag (mixed case)", "##!+ iS"},
	{"odd replacement list", "##!> include inc -- a"},
	{"flags inside an include", "##!> include flagged"},
}

func c16Cases() []c16Case {
	var out []c16Case
	ids := []struct{ file, arg, id string }{{"123456.ra", "123456", "123456"}, {"123457-chain1.ra", "123457-chain1", "123457"}, {"123458.ra", "123458", "123458"}}
	plant := func(where, line string) string {
		switch where {
		case "top level":
			return "foo\n" + line + "\nbar\n"
		case "in a block":
			return "##!> assemble\nfoo\n" + line + "\n##!<\nbar\n"
		case "alone before a marker":
			return line + "\n##!=>\nbar\n"
		case "alone before a store marker":
			return "foo\n##!=>\n" + line + "\n##!=< keep\nbar\n##!=> keep\n"
		case "in a nested block":
			return "##!> assemble\nfoo\n##!> assemble\nx\n" + line + "\n##!<\n##!<\nbar\n"
		case "after a good include":
			return "##!> include inc\n" + line + "\nbar\n"
		case "in the second include":
			return "##!> include inc\n##!> include faulty\nbar\n"
		case "in an include that is included with suffix pairs":
			return "foo\n##!> include faulty -- a b\nbar\n"
		case "in an include-except file with suffix pairs":
			return "foo\n##!> include-except faulty ex -- a b\nbar\n"
		case "in an include inside a block":
			return "##!> assemble\nfoo\n##!> include faulty\n##!<\nbar\n"
		default:
			return "foo\n##!> include faulty\nbar\n"
		}
	}
	for _, f := range c16LineFaults {
		for _, where := range []string{"top level", "in a block", "in an include", "in a nested block", "after a good include", "in the second include", "in an include inside a block", "alone before a marker", "alone before a store marker", "in an include that is included with suffix pairs", "in an include-except file with suffix pairs"} {
			if strings.HasPrefix(where, "alone before") && !strings.HasPrefix(f.Name, "entry RE2") {
				continue // only entries can stand alone before a marker
			}
			if (where == "in a block" || where == "in a nested block") && (f.Name == "extra end marker" || f.Name == "missing end marker" || strings.HasPrefix(f.Name, "unsupported flag")) {
				continue // position makes it a different (or no) fault
			}
			if strings.Contains(where, "include") && where != "after a good include" && (strings.HasPrefix(f.Name, "unsupported flag") || f.Name == "flags inside an include") {
				continue
			}
			mk := func(file string) core.Tree {
				t := c16Base()
				t["regex-assembly/include/flagged.ra"] = "##!+ i\nfoo\n"
				t["regex-assembly/exclude/everything.ra"] = "yb\nxa\n"
				t["regex-assembly/include/noentries.ra"] = "##! nothing here\n\n"
				t["regex-assembly/"+file] = plant(where, f.Line)
				if strings.Contains(where, "include") && where != "after a good include" {
					t["regex-assembly/include/faulty.ra"] = "x\n" + f.Line + "\ny\n"
				}
				return t
			}
			t := mk("123456.ra")
			add := func(cmd string, tree core.Tree, faulty string, stdin string, args ...string) {
				out = append(out, c16Case{Fault: f.Name, Where: where, Cmd: cmd, Args: args, Tree: tree, Faulty: faulty, Stdin: stdin})
			}
			add("generate", t, "123456", "", "regex", "generate", "123456")
			add("generate -", t, "123456", t["regex-assembly/123456.ra"], "regex", "generate", "-")
			add("update", t, "123456", "", "regex", "update", "123456")
			add("compare", t, "123456", "", "regex", "compare", "123456")
			add("compare github", t, "123456", "", "-o", "github", "regex", "compare", "123456")
			for i, id := range ids {
				tt := mk(id.file)
				if i > 0 {
					tt["regex-assembly/123456.ra"] = c16Base()["regex-assembly/123456.ra"]
				}
				pos := []string{"first", "middle", "last"}[i]
				out = append(out,
					c16Case{Fault: f.Name, Where: where + ", " + pos + " file of --all", Cmd: "update --all", Args: []string{"regex", "update", "--all"}, Tree: tt, Faulty: id.id},
					c16Case{Fault: f.Name, Where: where + ", " + pos + " file of --all", Cmd: "compare --all", Args: []string{"regex", "compare", "--all"}, Tree: tt, Faulty: id.id},
					c16Case{Fault: f.Name, Where: where + ", " + pos + " file of --all", Cmd: "compare --all github", Args: []string{"-o", "github", "regex", "compare", "--all"}, Tree: tt, Faulty: id.id})
			}
			if (f.Name == "extra end marker" || f.Name == "unsupported flag") && where == "top level" {
				add("format", t, "", "", "regex", "format", "123456")
				add("format --check", t, "", "", "regex", "format", "--check", "123456")
				add("format --all", t, "", "", "regex", "format", "--all")
			}
		}
	}
	// rule-side faults
	rule := func(name string, mut func(t core.Tree), arg, id string) {
		t := c16Base()
		mut(t)
		for _, c := range [][]string{{"regex", "update", arg}, {"regex", "compare", arg}, {"-o", "github", "regex", "compare", arg}} {
			out = append(out, c16Case{Fault: name, Where: "single rule", Cmd: c[len(c)-2], Args: c, Tree: t, Faulty: id})
		}
		for _, c := range [][]string{{"regex", "update", "--all"}, {"regex", "compare", "--all"}, {"-o", "github", "regex", "compare", "--all"}} {
			out = append(out, c16Case{Fault: name, Where: "--all", Cmd: c[len(c)-2] + " --all", Args: c, Tree: t, Faulty: id})
		}
	}
	rule("rule id not in the rules file", func(t core.Tree) { t["regex-assembly/123459.ra"] = "nine\n" }, "123459", "123459")
	rule("no rules file for the id prefix", func(t core.Tree) { t["regex-assembly/999999.ra"] = "nine\n" }, "999999", "999999")
	rule("two rules files for the id prefix", func(t core.Tree) {
		t["rules/REQUEST-123-OTHER.conf"] = rulesFile(ruleSpec{ID: "123999", Regex: "x"})
	}, "123456", "123456")
	rule("addressed line carries another operator", func(t core.Tree) {
		t["rules/REQUEST-123-TEST.conf"] = strings.Replace(t["rules/REQUEST-123-TEST.conf"], `"@rx OLD"`, `"@pm OLD"`, 1)
	}, "123456", "123456")
	rule("chain offset beyond the chain", func(t core.Tree) { t["regex-assembly/123457-chain3.ra"] = "deep\n" }, "123457-chain3", "")
	rule("chain offset on an unchained rule", func(t core.Tree) { t["regex-assembly/123458-chain1.ra"] = "deep\n" }, "123458-chain1", "123458")
	// argument-side faults
	for _, arg := range []string{"12345", "abc", "123456-chain", "123456-chain256", "123456.txt", ""} {
		for _, c := range []string{"generate", "update", "compare"} {
			out = append(out, c16Case{Fault: "malformed rule argument", Where: fmt.Sprintf("%q", arg), Cmd: c, Args: []string{"regex", c, arg}, Tree: c16Base()})
		}
	}
	for _, c := range [][]string{{"regex", "generate", "123460"}, {"regex", "update", "123460"}, {"regex", "compare", "123460"}, {"regex", "format", "123460"}, {"regex", "format", "nosuchinclude"}, {"regex", "format", "-c", "123460"}} {
		out = append(out, c16Case{Fault: "missing assembly file", Where: "argument", Cmd: c[1], Args: c, Tree: c16Base(), Faulty: "123460"})
	}
	for _, v := range [][]string{{"-v", "4.x"}, {"-v", "four"}, {}, {"-v", ""}, {"-v", "1.2.3.4.5"}, {"-v", "4.1.0-rc_1"}, {"-v", "4.1.0-"}, {"-v", "4.1.0-rc..1"}, {"-v", "4.1.0-rc 1"}, {"-v", "4.1.0+"}, {"-v", "4.1.0-rc1'"}, {"-v", "4.1.0-01"}, {"-v", "4.1.0.-rc1"}} {
		out = append(out, c16Case{Fault: "invalid or missing version", Where: fmt.Sprint(v), Cmd: "update-copyright", Args: append([]string{"chore", "update-copyright", "-y", "2031"}, v...), Tree: c16Base()})
	}
	for _, a := range []string{"999999", "999999.yaml", "12345"} {
		out = append(out, c16Case{Fault: "unknown test file", Where: a, Cmd: "renumber-tests", Args: []string{"util", "renumber-tests", a}, Tree: c16Base()},
			c16Case{Fault: "unknown test file", Where: a, Cmd: "renumber-tests --check", Args: []string{"util", "renumber-tests", "-c", a}, Tree: c16Base()})
	}
	// a test file that exists twice (in two test directories, or with both extensions): the argument is ambiguous
	{
		t := c16Base()
		t["tests/regression/tests/REQUEST-123-TEST/123499.yaml"] = "tests:\n  - test_id: 7\n"
		t["tests/regression/tests/REQUEST-999-OTHER/123499.yaml"] = "tests:\n  - test_id: 9\n"
		t["tests/regression/tests/REQUEST-123-TEST/123498.yaml"] = "tests:\n  - test_id: 7\n"
		t["tests/regression/tests/REQUEST-123-TEST/123498.yml"] = "tests:\n  - test_id: 9\n"
		for _, a := range []string{"123499", "123499.yaml", "123498", "123498.yaml", "123498.yml"} {
			if a == "123498.yaml" || a == "123498.yml" {
				continue // the extension decides between the two: not ambiguous
			}
			out = append(out, c16Case{Fault: "ambiguous test file", Where: a, Cmd: "renumber-tests", Args: []string{"util", "renumber-tests", a}, Tree: t},
				c16Case{Fault: "ambiguous test file", Where: a, Cmd: "renumber-tests --check", Args: []string{"util", "renumber-tests", "-c", a}, Tree: t})
		}
	}
	// every --all case again with entries beside the assembly files that a walk must step over
	for _, c := range out {
		if strings.Contains(c.Cmd, "--all") && !strings.HasPrefix(c.Cmd, "format") {
			t := c.Tree.Clone()
			for k, v := range c16Bystanders {
				t[k] = v
			}
			c.Tree, c.Where = t, c.Where+", hidden and non-regular entries beside the files"
			out = append(out, c)
		}
	}
	return out
}

// c16Bystanders: hidden files and directories, links and other names inside the assembly directory.
var c16Bystanders = core.Tree{
	"regex-assembly/.gitkeep": "", "regex-assembly/.hidden/": "", "regex-assembly/.hidden/x.txt": "x\n", "regex-assembly/000-notes.txt": "notes\n",
	"regex-assembly/include/.gitkeep": "", "regex-assembly/000-link": core.LinkPrefix + "include", "regex-assembly/000-dangling": core.LinkPrefix + "nowhere",
	"regex-assembly/0-empty/": "", "rules/.gitkeep": "", ".git/HEAD": "ref: refs/heads/main\n",
}

type c16Res struct {
	Case    c16Case  `json:"case"`
	Exit    int      `json:"exit"`
	Stdout  string   `json:"stdout"`
	Stderr  string   `json:"stderr_tail"`
	Changed []string `json:"changed"`
	Clauses []string `json:"clauses"`
}

func C16(r *core.Run) {
	r.CLIOnly = true
	dir := ""
	if !r.IsWorker() {
		dir = core.Scratch("c16")
		defer os.RemoveAll(dir)
	}
	type in struct{ Dir string }
	type out struct {
		Runs, Loud int
		Bad        []c16Res
		Exits      map[string]int
	}
	outs, deaths := core.Parallel(r, "sweep", in{dir}, r.Workers, func(in in, shard, n int, emit func(out)) {
		o := out{Exits: map[string]int{}}
		sb := filepath.Join(in.Dir, fmt.Sprint("w", shard))
		for i, c := range c16Cases() {
			if i%n != shard {
				continue
			}
			os.RemoveAll(sb)
			c.Tree.Materialise(sb)
			before := core.Snapshot(sb)
			r.Inflight(fmt.Sprint(c.Fault, c.Where, c.Cmd))
			res := core.RunCLI(r.Crs, sb, c.Stdin, nil, append([]string{"-d", sb}, c.Args...)...)
			changed := before.Diff(core.Snapshot(sb), false)
			o.Runs++
			o.Exits[fmt.Sprint(res.Exit)]++
			var clauses []string
			if res.Exit == 0 || res.TimedOut {
				clauses = append(clauses, "nonzero-exit")
			}
			if strings.HasPrefix(c.Cmd, "generate") && res.Stdout != "" {
				clauses = append(clauses, "no-regex-printed")
			}
			if c.Faulty != "" && strings.Contains(res.Stdout, "Regex of "+c.Faulty) {
				clauses = append(clauses, "no-regex-printed")
			}
			if c.Cmd == "format --all" {
				// every file is the target of its own formatting request: the file that cannot be formatted must stay as it is
				var ch []string
				for _, x := range changed {
					if strings.HasSuffix(x, "regex-assembly/123456.ra") {
						ch = append(ch, x)
					}
				}
				changed = ch
			}
			if len(changed) > 0 {
				clauses = append(clauses, "targets-unchanged")
			}
			if len(clauses) == 0 {
				o.Loud++
			} else {
				o.Bad = append(o.Bad, c16Res{c, res.Exit, tailStr(res.Stdout, 300), tailStr(res.Stderr, 400), changed, clauses})
			}
		}
		// converse clause on the fault-free tree: exit 0 only with the complete result
		for bi, by := range []core.Tree{nil, c16Bystanders} {
			if bi%n != shard {
				continue
			}
			os.RemoveAll(sb)
			c16Base().Materialise(sb)
			by.Materialise(sb)
			g := core.RunCLI(r.Crs, sb, "", nil, "-d", sb, "regex", "generate", "123456")
			u := core.RunCLI(r.Crs, sb, "", nil, "-d", sb, "regex", "update", "--all")
			conf, _ := os.ReadFile(filepath.Join(sb, "rules/REQUEST-123-TEST.conf"))
			cmp := core.RunCLI(r.Crs, sb, "", nil, "-d", sb, "regex", "compare", "--all")
			o.Runs += 3
			if g.Exit != 0 || g.Stdout != "foo|bar" || u.Exit != 0 || !strings.Contains(string(conf), `"@rx foo|bar"`) || !strings.Contains(string(conf), `"@rx baz|qux"`) || !strings.Contains(string(conf), `"@rx last|entry"`) ||
				cmp.Exit != 0 || strings.Count(cmp.Stdout, "has not changed") != 4 {
				o.Bad = append(o.Bad, c16Res{Case: c16Case{Fault: "none", Cmd: "fault-free run"}, Exit: u.Exit, Stdout: g.Stdout + "\n" + cmp.Stdout, Stderr: u.Stderr, Clauses: []string{"zero-exit-means-complete"}})
			}
		}
		emit(o)
	})
	if r.IsWorker() {
		return
	}
	for _, d := range deaths {
		r.HarnessError("worker %s/%d %s on %q: %s", d.Stage, d.Shard, d.Kind, d.Case, tailStr(d.Log, 300))
	}
	runs, loud := 0, 0
	exits := map[string]int{}
	var bad []c16Res
	for _, o := range outs {
		runs += o.Runs
		loud += o.Loud
		bad = append(bad, o.Bad...)
		for k, v := range o.Exits {
			exits[k] += v
		}
	}
	sort.Slice(bad, func(i, j int) bool {
		return fmt.Sprint(bad[i].Case.Fault, bad[i].Case.Cmd, bad[i].Case.Where) < fmt.Sprint(bad[j].Case.Fault, bad[j].Case.Cmd, bad[j].Case.Where)
	})
	for _, b := range bad {
		for _, cl := range b.Clauses {
			key := fmt.Sprintf("fault=%s | where=%s | cmd=%s", b.Case.Fault, b.Case.Where, b.Case.Cmd)
			r.Report(core.Violation{Clause: cl + ":" + b.Case.Fault, Key: key,
				What:   fmt.Sprintf("%s (%s): `%s` exits %d, stdout %q, changed %v", b.Case.Fault, b.Case.Where, strings.Join(b.Case.Args, " "), b.Exit, tailStr(b.Stdout, 80), b.Changed),
				Detail: b})
		}
	}
	cs := c16Cases()
	r.Cov["evaluations"] = runs
	r.Cov["states"] = len(cs) + 1
	r.Cov["transitions"] = runs
	r.Cov["traces_validated_against_impl"] = runs
	r.Cov["loud_failures"] = loud
	r.Cov["distinct_nontrivial"] = loud
	r.Cov["exit_statuses"] = exits
	r.Cov["exhaustive"] = len(deaths) == 0
	r.Cov["bound"] = map[string]any{"line_faults": len(c16LineFaults), "positions": "top level / in a block / in an include / first, middle, last file of --all", "deviations": 1}
	r.Cov["rule"] = "one fault per case (1-deviation exploration of an otherwise valid tree): every listed fault class at every position it can occur x every command for which it is a fault, executed with the real CLI; oracle: exit != 0, no regex on stdout, whole tree byte-identical; plus the converse check on the fault-free tree; non-trivial = cases that failed loudly; every --all case is repeated with hidden files and directories, links and other names beside the assembly files"
	r.Cov["samples"] = []any{cs[0], cs[len(cs)/2], cs[len(cs)-1]}
}
