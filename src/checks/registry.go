package checks

import "github.com/coreruleset/crs-toolchain/v2/zz_verif/core"

var Registry = map[string]func(*core.Run){}
