package checks

import (
	"os"
	"runtime"
	"time"

	"github.com/coreruleset/crs-toolchain/v2/zz_verif/core"
	"github.com/coreruleset/crs-toolchain/v2/zz_verif/inproc"
)

var Registry = map[string]func(*core.Run){}

func init() {
	// state-leak sentinel: the same probe programs in the worker process and in fresh processes
	core.WorkerProbe = func() string {
		// the repository never closes included files: let the finalizers run before probing
		for i := 0; i < 3; i++ {
			runtime.GC()
			time.Sleep(5 * time.Millisecond)
		}
		d := core.Scratch("probe")
		defer os.RemoveAll(d)
		return inproc.Sentinel(d, false)
	}
	core.ProbeReference = func() string {
		d := core.Scratch("probe")
		defer os.RemoveAll(d)
		return inproc.Sentinel(d, true)
	}
}
