package checks

import (
	"fmt"
	"os"
	"path/filepath"
	"regexp"
	"sort"
	"strings"

	"github.com/coreruleset/crs-toolchain/v2/zz_verif/core"
)

func init() { Registry["C14"] = C14 }

var c14Versions = []string{"4.0.0", "4.10.2", "4.1.0", "4.1.0-rc1", "4.1.0-RC1", "v4.2.0", "4.3.0+b5", "4.4", "v4.5.0-rc2+b1", "10.20.30-dev-1", "0.9.1", "v0.10"}
var c14Rejected = []string{"4.x", "", "version4", "4.0.0.0.1"}
var c14Years = []string{"2025", "2031"}

var digitsOnly = regexp.MustCompile(`\d+`)

// template text with holes {V} {Y} {D}; everything else must never change
const c14Markers = `# ------------------------------------------------------------------------
# OWASP CRS ver.{V}
# Copyright (c) 2006-2020 Trustwave and contributors. All rights reserved.
# Copyright (c) 2021-{Y} CRS project. All rights reserved.
#
# text that only looks like a marker: OWASP CRS ver.9.9.9 (not at line start)
#  Copyright (c) 2021-1999 CRS project. All rights reserved.
SecRule REQUEST_HEADERS:User-Agent "@rx ver:x" \
    "id:901001,\
    phase:1,\
    msg:'Copyright (c) 2021-1999',\
    ver:'OWASP_CRS/{V}',\
    severity:'CRITICAL'"

SecComponentSignature "OWASP_CRS/{V}"
SecAction "id:900991,ver:'OWASP_CRS/{V}',setvar:tx.crs_setup_version={D},setvar:tx.crs_setup_version={D},ver:'OWASP_CRS/{V}'"
`

// markers inside commented-out rules are markers too
const c14Commented = `#SecAction \
#    "id:900000,\
#    ver:'OWASP_CRS/{V}',\
#    setvar:tx.crs_setup_version={D}"
    # indented comment: ver:'OWASP_CRS/{V}'
`

const c14Legacy = `# OWASP ModSecurity Core Rule Set ver.{V}
# Copyright (c) 2021-{Y} Core Rule Set project. All rights reserved.
SecAction \
    "id:900990,\
    ver:'OWASP_CRS/{V}',\
    setvar:tx.crs_setup_version={D}"
`

func c14Fill(tpl, v, y string) string {
	d := strings.Join(digitsOnly.FindAllString(v, -1), "")
	return strings.NewReplacer("{V}", v, "{Y}", y, "{D}", d).Replace(tpl)
}

// c14Tree renders the whole tree for (version, year); decoys always carry the pristine values.
func c14Tree(v, y string) core.Tree {
	t := core.Tree{
		"regex-assembly/":              "",
		"rules/REQUEST-901-INIT.conf":  c14Fill(c14Markers, v, y),
		"rules/REQUEST-999-TWICE.conf": c14Fill(c14Markers+c14Markers+c14Legacy+c14Legacy, v, y),
		"crs-setup.conf.example":       c14Fill(c14Legacy+c14Markers, v, y),
		"rules/none.conf":              "# nothing to see\nSecRuleEngine On\n",
		"plugins/year-only.conf":       c14Fill("# Copyright (c) 2021-{Y} CRS project. All rights reserved.\nSecRuleEngine On\n", v, y),
		"setup-version-only.example":   c14Fill("SecAction \"id:900990,setvar:tx.crs_setup_version={D}\"\n", v, y),
		"rules/signature-only.conf":    c14Fill("SecComponentSignature \"OWASP_CRS/{V}\"\n", v, y),
		"rules/one-line.conf":          c14Fill("SecAction \"id:900990,ver:'OWASP_CRS/{V}',setvar:tx.crs_setup_version={D}\"\n", v, y),
		"rules/crlf.conf":              strings.ReplaceAll(c14Fill(c14Markers, v, y), "\n", "\r\n"),
		"rules/commented.conf":         c14Fill(c14Commented+c14Markers+c14Commented, v, y),
		"rules/nonl.conf":              strings.TrimSuffix(c14Fill(c14Legacy, v, y), "\n"),
		"plugins/deep/nested/p.conf":   c14Fill(c14Markers, v, y),
	}
	// decoys: other extensions keep the pristine text whatever happens
	for _, p := range []string{"rules/x.conf.bak", "notes.txt", "rules/y.data", ".github/workflows/w.yml", "rules/conf", "example.md"} {
		t[p] = c14Fill(c14Markers+c14Legacy, "4.0.0", "2024")
	}
	return t
}

// c14Layouts: additional directory entries. Extra values are templates (filled like the other
// target files: they must show the new version), Fixed values must stay exactly as they are.
var c14Layouts = []struct {
	Name  string
	Extra core.Tree
	Fixed core.Tree
}{
	// a layout named "root:<dir>" puts the tree into <dir> below the sandbox
	{"root:.crs", core.Tree{"util/modsec/extra.conf": c14Markers}, nil},
	{"root:my crs [v4]", nil, nil},
	// the tree is in real/, the command is pointed at a symbolic link to it
	{"root reached through a symbolic link", nil, nil},
	// -d names a directory below the root: the root is what is updated
	{"-d at rules/", nil, nil}, {"-d at plugins/deep/nested/", nil, nil}, {"-d at regex-assembly/", nil, nil},
	{"symlink to a file outside the targets, first in rules/", nil, core.Tree{"LICENSE": "Apache\n", "rules/AAA-LICENSE": core.LinkPrefix + "../LICENSE"}},
	{"crs-setup.conf linked to the example file", nil, core.Tree{"crs-setup.conf": core.LinkPrefix + "crs-setup.conf.example"}},
	{"dangling symlink and link to a directory", nil, core.Tree{"rules/AAA-dangling": core.LinkPrefix + "nowhere", "AAA-plugins": core.LinkPrefix + "plugins", "plugins/AAA-up": core.LinkPrefix + ".."}},
	{"hidden directories and files", core.Tree{".hidden/h.conf": c14Markers, "rules/.dot.conf": c14Legacy, "rules/.d/x.example": c14Markers}, core.Tree{"rules/.gitkeep": "", ".git/HEAD": "ref: refs/heads/main\n", "rules/.AAA": "# OWASP CRS ver.4.0.0\n"}},
	{"empty and deep directories", core.Tree{"a/b/c/d/e/f/g/h/deep.conf": c14Markers, "rules/sub/REQUEST-1.conf": c14Legacy}, core.Tree{"rules/AAA-empty/": "", "a/b/c/empty/": "", "rules/000.txt": "# OWASP CRS ver.4.0.0\n"}},
	{"names with blanks and non-ASCII", core.Tree{"rules/with blank.conf": c14Markers, "rules/ünï.conf": c14Legacy, "my plugins/p q.example": c14Markers}, core.Tree{"rules/with blank.txt": "# OWASP CRS ver.4.0.0\n"}},
	{"target names in odd places", core.Tree{"rules/a.conf.example": c14Markers, "rules/x.example.conf": c14Markers, "tests/t.conf": c14Legacy, "regex-assembly/r.conf": c14Markers}, core.Tree{"rules/conf.d/readme": "# OWASP CRS ver.4.0.0\n", "rules/a.conf.d/readme": "# OWASP CRS ver.4.0.0\n"}},
}

// c14NoCR: whether a file with CRLF line ends keeps them is not the property's subject (the tool writes LF);
// the markers in it are. The CRLF file is compared without its carriage returns.
func c14NoCR(t core.Tree) core.Tree {
	c := t.Clone()
	if v, ok := c["rules/crlf.conf"]; ok {
		c["rules/crlf.conf"] = strings.ReplaceAll(v, "\r", "")
	}
	return c
}

type c14Fail struct {
	Clause  string   `json:"clause"`
	History []string `json:"history"`
	Why     string   `json:"why"`
	Diff    any      `json:"diff,omitempty"`
}

func C14(r *core.Run) {
	r.CLIOnly = true
	dir := ""
	if !r.IsWorker() {
		dir = core.Scratch("c14")
		defer os.RemoveAll(dir)
	}
	depth := r.Pick(2, 3)
	type step struct{ V, Y string }
	var steps []step
	for _, v := range c14Versions {
		for _, y := range c14Years {
			steps = append(steps, step{v, y})
		}
	}
	type in struct {
		Dir   string
		Depth int
	}
	type out struct {
		States, Transitions, Accepted, Rejected int
		Fails                                   []c14Fail
	}
	// shard by first step; each shard runs a BFS (state = tree content) below it
	outs, deaths := core.Parallel(r, "bfs", in{dir, depth}, r.Workers, func(in in, shard, n int, emit func(out)) {
		var o out
		sb := filepath.Join(in.Dir, fmt.Sprint("w", shard))
		norm := func(t core.Tree) core.Tree {
			c := core.Tree{}
			for k, v := range t {
				if !strings.HasSuffix(k, "/") {
					c[k] = v
				}
			}
			return c
		}
		apply := func(t core.Tree, s step) (core.Tree, core.CLIResult) {
			os.RemoveAll(sb)
			t.Materialise(sb)
			os.MkdirAll(filepath.Join(sb, "regex-assembly"), 0o755)
			res := core.RunCLI(r.Crs, sb, "", nil, "-d", sb, "chore", "update-copyright", "-v", s.V, "-y", s.Y)
			o.Transitions++
			return core.ReadTree(sb), res
		}
		type node struct {
			tree core.Tree
			hist []string
			last step
		}
		pristine := norm(c14Tree("4.0.0", "2024"))
		seen := map[string]bool{}
		var frontier []node
		for i, s := range steps {
			if i%n != shard {
				continue
			}
			frontier = append(frontier, node{pristine, nil, s})
		}
		// frontier holds (state, next step) pairs for depth 1; expand breadth first
		type pending struct {
			from node
			s    step
		}
		var queue []pending
		for _, f := range frontier {
			queue = append(queue, pending{node{pristine, nil, step{}}, f.last})
		}
		for len(queue) > 0 {
			p := queue[0]
			queue = queue[1:]
			hist := append(append([]string{}, p.from.hist...), p.s.V+"/"+p.s.Y)
			r.Inflight(strings.Join(hist, " -> "))
			got, res := apply(p.from.tree, p.s)
			o.Accepted++
			want := norm(c14Tree(p.s.V, p.s.Y))
			// a missing final newline is added by design (pinned by TestUpdateCopyrightTests_AddsNewLine): not "other text"
			for k, v := range want {
				if (strings.HasSuffix(k, ".conf") || strings.HasSuffix(k, ".example")) && !strings.HasSuffix(v, "\n") {
					want[k] = v + "\n"
				}
			}
			fail := func(clause, why string, diff any) { o.Fails = append(o.Fails, c14Fail{clause, hist, why, diff}) }
			if res.Exit != 0 {
				fail("markers-show-last-version", fmt.Sprintf("accepted version fails: exit %d %s", res.Exit, tailStr(res.Stderr, 200)), nil)
				continue
			}
			if treeHash(c14NoCR(got)) != treeHash(c14NoCR(want)) {
				d := diffTrees(c14NoCR(want), c14NoCR(got))
				clause := "markers-show-last-version"
				// classify: which kind of text is wrong
				for _, pair := range d {
					w, g := pair[0], pair[1]
					if c14Fill(strings.NewReplacer(p.s.V, "{V}").Replace(w), "X", "Y") == "" {
						continue
					}
					_ = g
				}
				if len(p.from.hist) > 0 {
					// does the same step applied to the pristine tree give the right result?
					g2, _ := apply(pristine, p.s)
					if treeHash(c14NoCR(g2)) == treeHash(c14NoCR(want)) {
						clause = "history-independent"
					}
				}
				for path := range d {
					if !strings.HasSuffix(path, ".conf") && !strings.HasSuffix(path, ".example") {
						clause = "other-text-untouched"
					}
				}
				fail(clause, "files differ from the template filled with the last version and year", d)
			}
			// repeating the step changes nothing
			again, res2 := apply(got, p.s)
			if res2.Exit != 0 || treeHash(again) != treeHash(got) {
				fail("idempotent", "repeating the command changes the tree", diffTrees(got, again))
			}
			k := treeHash(got)
			if !seen[k] && len(hist) < in.Depth {
				seen[k] = true
				o.States++
				for _, s := range steps {
					queue = append(queue, pending{node{got, hist, p.s}, s})
				}
			}
		}
		// rejected versions: non-zero exit, tree unchanged (from the pristine tree and from one reached state)
		if shard == 0 {
			for _, base := range []core.Tree{pristine, norm(c14Tree("4.1.0-rc1", "2031"))} {
				for _, v := range c14Rejected {
					args := []string{"-d", sb, "chore", "update-copyright", "-y", "2031"}
					if v != "" {
						args = append(args, "-v", v)
					}
					os.RemoveAll(sb)
					base.Materialise(sb)
					os.MkdirAll(filepath.Join(sb, "regex-assembly"), 0o755)
					res := core.RunCLI(r.Crs, sb, "", nil, args...)
					o.Transitions++
					o.Rejected++
					if got := core.ReadTree(sb); res.Exit == 0 || treeHash(got) != treeHash(base) {
						o.Fails = append(o.Fails, c14Fail{"rejected-version-clean", []string{v}, fmt.Sprintf("rejected version %q: exit %d, tree changed: %v", v, res.Exit, treeHash(got) != treeHash(base)), nil})
					}
				}
			}
		}
		emit(o)
	})
	// directory layouts: entries that are neither regular files nor plain directories, hidden
	// directories, deep nesting. One and two steps from the pristine tree for every layout.
	type layRes struct {
		Runs  int
		Fails []c14Fail
	}
	lays, d2 := core.Parallel(r, "layout", in{dir, depth}, r.Workers, func(in in, shard, n int, emit func(layRes)) {
		var o layRes
		idx := 0
		for li, lay := range c14Layouts {
			for _, hist := range [][]step{{{"4.1.0", "2031"}}, {{"4.1.0-rc1", "2025"}, {"v4.2.0", "2031"}}} {
				if idx++; idx%n != shard {
					continue
				}
				build := func(v, y string) core.Tree {
					t := c14Tree(v, y)
					for k, e := range lay.Extra {
						t[k] = c14Fill(e, v, y)
					}
					for k, e := range lay.Fixed {
						t[k] = e
					}
					return t
				}
				os.RemoveAll(filepath.Join(in.Dir, fmt.Sprint("l", shard)))
				sb := filepath.Join(in.Dir, fmt.Sprint("l", shard))
				if root, ok := strings.CutPrefix(lay.Name, "root:"); ok {
					sb = filepath.Join(sb, root)
				}
				dArg := sb
				if lay.Name == "root reached through a symbolic link" {
					dArg = filepath.Join(sb, "link")
					sb = filepath.Join(sb, "real")
				}
				build("4.0.0", "2024").Materialise(sb)
				if dArg != sb {
					os.Symlink("real", dArg)
				}
				if sub, ok := strings.CutPrefix(lay.Name, "-d at "); ok {
					dArg = filepath.Join(sb, sub)
				}
				var names []string
				ok := true
				for _, s := range hist {
					names = append(names, s.V+"/"+s.Y)
					r.Inflight(fmt.Sprint(lay.Name, names))
					res := core.RunCLI(r.Crs, sb, "", nil, "-d", dArg, "chore", "update-copyright", "-v", s.V, "-y", s.Y)
					o.Runs++
					if res.Exit != 0 {
						o.Fails = append(o.Fails, c14Fail{"layout:" + lay.Name, names, fmt.Sprintf("exit %d: %s", res.Exit, tailStr(res.Stderr, 200)), nil})
						ok = false
						break
					}
				}
				if !ok {
					continue
				}
				last := hist[len(hist)-1]
				want := core.Tree{}
				for k, v := range build(last.V, last.Y) {
					if strings.HasSuffix(k, "/") {
						continue
					}
					if (strings.HasSuffix(k, ".conf") || strings.HasSuffix(k, ".example")) && !strings.HasSuffix(v, "\n") && !strings.HasPrefix(v, core.LinkPrefix) {
						v += "\n"
					}
					want[k] = v
				}
				if got := core.ReadTree(sb); treeHash(c14NoCR(got)) != treeHash(c14NoCR(want)) {
					o.Fails = append(o.Fails, c14Fail{"layout:" + lay.Name, names, fmt.Sprintf("layout %d (%s): files differ from the template filled with the last version and year", li, lay.Name), diffTrees(want, got)})
				}
			}
		}
		emit(o)
	})
	deaths = append(deaths, d2...)
	if r.IsWorker() {
		return
	}
	layRuns := 0
	for _, l := range lays {
		layRuns += l.Runs
		outs = append(outs, out{Transitions: l.Runs, Fails: l.Fails})
	}
	for _, d := range deaths {
		r.HarnessError("worker %s/%d %s on %q: %s", d.Stage, d.Shard, d.Kind, d.Case, tailStr(d.Log, 300))
	}
	var tot out
	for _, o := range outs {
		tot.States += o.States
		tot.Transitions += o.Transitions
		tot.Accepted += o.Accepted
		tot.Rejected += o.Rejected
		tot.Fails = append(tot.Fails, o.Fails...)
	}
	sort.SliceStable(tot.Fails, func(i, j int) bool { return len(tot.Fails[i].History) < len(tot.Fails[j].History) })
	seen := map[string]bool{}
	for _, f := range tot.Fails {
		// one violation per (clause, last step's version); shortest history first
		last := f.History[len(f.History)-1]
		v, _, _ := strings.Cut(last, "/")
		prev := ""
		if len(f.History) > 1 {
			prev, _, _ = strings.Cut(f.History[len(f.History)-2], "/")
		}
		k := f.Clause + "|" + v + "|" + prev
		if seen[k] {
			continue
		}
		seen[k] = true
		r.Report(core.Violation{Clause: f.Clause, Key: "history=" + strings.Join(f.History, " -> "),
			What:   fmt.Sprintf("update-copyright history %v: %s", f.History, f.Why),
			Detail: f,
			Repro:  []string{"crs-toolchain chore update-copyright -v <version> -y <year>   (one invocation per history step)"}})
	}
	r.Cov["evaluations"] = tot.Transitions
	r.Cov["states"] = tot.States + 1
	r.Cov["transitions"] = tot.Transitions
	r.Cov["accepted_steps"] = tot.Accepted
	r.Cov["rejected_steps"] = tot.Rejected
	r.Cov["traces_validated_against_impl"] = tot.Transitions
	r.Cov["distinct_nontrivial"] = tot.Accepted
	r.Cov["exhaustive"] = len(deaths) == 0
	r.Cov["layout_runs"] = layRuns
	r.Cov["bound"] = map[string]any{"layouts": len(c14Layouts), "versions": c14Versions, "rejected": c14Rejected, "years": c14Years, "history_length": depth, "files": 7, "decoys": 6}
	r.Cov["rule"] = "explicit-state BFS over invocation histories with the real CLI: from the pristine tree every (version, year) step, from every distinct reached tree again every step, up to the history length; after every step all .conf/.example files must equal the template filled with that step's values (other text and decoy files byte-identical), repeating the step must change nothing; rejected versions exit non-zero and leave the tree; states = distinct trees expanded, transitions = CLI executions; stage layout: seven directory layouts (symbolic links to files and directories, dangling links, hidden files and directories, deep, blank and non-ASCII names, target names in odd places) with one- and two-step histories"
	r.Cov["samples"] = []any{[]string{"4.1.0-RC1/2025", "4.0.0/2031"}, []string{"v4.2.0/2031", "4.4/2025", "10.20.30-dev-1/2031"}}
}
