package checks

import (
	"fmt"
	"os"
	"path/filepath"
	"sort"
	"strings"
	"time"

	crsctx "github.com/coreruleset/crs-toolchain/v2/context"
	"github.com/coreruleset/crs-toolchain/v2/regex/parser"
	"github.com/coreruleset/crs-toolchain/v2/regex/processors"
	"github.com/coreruleset/crs-toolchain/v2/zz_verif/core"
	"github.com/coreruleset/crs-toolchain/v2/zz_verif/inproc"
)

func init() { Registry["C03"] = C03 }

var c03Tokens = []string{"##!", "##!>", "##!^", "##!$", "##!+", "##!<", "##!=>", " ", "include", "include-except", "define", "inc", "ex", "--", "a", "i"}

func c03Tree() core.Tree {
	t := c01Tree()
	t["regex-assembly/include/inc.ra"] = "xa\nyb\n"
	t["regex-assembly/exclude/ex.ra"] = "yb\n"
	t["regex-assembly/include/dup.ra"] = "alpha\nbeta\nalpha\ngamma\n"
	t["regex-assembly/include/sfx.ra"] = "##!^ p+\n##!$ s+\none\ntwo\n"
	// exclude files that interact through definitions (they are read in the listed order)
	t["regex-assembly/include/words.ra"] = "alpha\nbravo\ncharlie\ndelta\n"
	t["regex-assembly/exclude/defa.ra"] = "##!> define w alpha\nzz\n"
	t["regex-assembly/exclude/usew.ra"] = "{{w}}\n"
	t["regex-assembly/exclude/defb.ra"] = "##!> define w delta\n{{w}}\n"
	t["regex-assembly/include/a.ra"] = "fromfilea\n"
	t["regex-assembly/include/i.ra"] = "fromfilei\n"
	t["regex-assembly/123456.ra"] = "placeholder\n"
	t["rules/REQUEST-123-TEST.conf"] = c02Rules
	return t
}

// parseObs parses text with a fresh parser and renders everything the parser hands to the assembler.
func parseObs(ctx *crsctx.Context, text string) string {
	var p *parser.Parser
	o := inproc.Guard(func() (string, error) {
		p = parser.NewParser(processors.NewContext(ctx), strings.NewReader(text))
		buf, _ := p.Parse(false)
		return buf.String(), nil
	})
	if o.Kind != inproc.OK {
		return o.Kind
	}
	var fl []string
	for f := range p.Flags {
		fl = append(fl, string(f))
	}
	sort.Strings(fl)
	return fmt.Sprintf("ok buf=%q flags=%v prefixes=%q suffixes=%q", o.Out, fl, p.Prefixes, p.Suffixes)
}

type c03Amb struct {
	Line     string   `json:"line"`
	Outcomes []string `json:"outcomes"`
	Sched    []int    `json:"schedule"` // first schedule that produced a second outcome
}

type c03L1Out struct {
	Lines, Execs int
	Amb          []c03Amb
}

// outcomesUnder explores all schedules with <= bound deviations and returns the distinct observations.
func outcomesUnder(bound int, f func() string) (outs []string, firstDiff []int, execs int) {
	seen := map[string]bool{}
	if inproc.CLIMode {
		// degraded mode: no control over the map order of the CLI processes; three fresh processes instead
		for i := 0; i < 3; i++ {
			cur := f()
			execs++
			if !seen[cur] {
				seen[cur] = true
				outs = append(outs, cur)
			}
		}
		return
	}
	var cur string
	execs, _ = core.ExploreSchedules(bound, 0, func() { cur = f() }, func(e *core.Exec) {
		if !seen[cur] {
			seen[cur] = true
			outs = append(outs, cur)
			if len(outs) == 2 {
				firstDiff = append([]int{}, e.Choices...)
			}
		}
	})
	return
}

type c03Cmd struct {
	Name string
	Run  func(root *inproc.Root, text string) string
}

func c03Reset(root *inproc.Root, text string) {
	os.WriteFile(filepath.Join(root.Dir, "regex-assembly/123456.ra"), []byte(text), 0o644)
	os.WriteFile(filepath.Join(root.Dir, "rules/REQUEST-123-TEST.conf"), []byte(c02Rules), 0o644)
}

func c03Files(root *inproc.Root) string {
	a, _ := os.ReadFile(filepath.Join(root.Dir, "regex-assembly/123456.ra"))
	b, _ := os.ReadFile(filepath.Join(root.Dir, "rules/REQUEST-123-TEST.conf"))
	return core.Hash(string(a) + "\x00" + string(b))
}

var c03Cmds = []c03Cmd{
	{"generate", func(root *inproc.Root, text string) string { return root.Generate(text).String() }},
	{"format", func(root *inproc.Root, text string) string {
		c03Reset(root, text)
		r := root.Format(filepath.Join(root.Dir, "regex-assembly/123456.ra"), false)
		return r.Obs() + "\x00" + c03Files(root)
	}},
	{"check", func(root *inproc.Root, text string) string {
		c03Reset(root, text)
		r := root.Format(filepath.Join(root.Dir, "regex-assembly/123456.ra"), true)
		return r.Obs() + "\x00" + c03Files(root)
	}},
	{"update", func(root *inproc.Root, text string) string {
		c03Reset(root, text)
		r := root.Update("123456")
		return r.Obs() + "\x00" + c03Files(root)
	}},
	{"compare", func(root *inproc.Root, text string) string {
		c03Reset(root, text)
		r := root.Compare("123456", false)
		return r.Obs() + "\x00" + c03Files(root)
	}},
}

// static part of the L2 line menu
var c03Menu = []string{
	"foo", "bar|baz", "##! note", "##!+ i", "##!+ si", "##!^ p", "##!$ q", "##!> assemble", "##!<", "##!=>",
	"##!> define d1 x", "##!> define d2 {{d1}}y", "##!> define d3 {{d2}}{{d1}}", "{{d1}}", "{{d3}}{{d2}}",
	"##!> include inc", "##!> include inc -- a b b c", "##!> include-except inc ex", "##!> include-except inc ex -- a b b c",
	"##!> include inc -- a b xa q b c",
	"##!> include-except words defa usew defb", "##!> include-except words usew defb defa ex", "##!> include-except words defb defa usew usew",
	// a name that exists in the include and in the exclude directory (with different content)
	"##!> include incd", "##!> include-except incd ex",
	"##!> include-except dup ex", "##!> include-except sfx ex", "##!> include-except sfx ex -- e z", "##!> include sfx",
	// lines that several directive patterns could claim (also computed by L1)
	"##! ##!> include inc", "a ##!> include inc", "##!+ i ##!> include inc", "##!^ p ##!> include inc", "##! ##!> define d1 x", "##!> include-except inc ex ##!> include inc",
}

type c03L2Case struct {
	Text     string
	Cmd      string
	Bound    int
	DefsOnly bool // schedule only the map ranges of expandDefinitions (then Bound may be "all")
}

type c03L2Out struct {
	Cases, Execs int
	Multi        []c03L2Res
	Outcomes     map[string][]string // for generate: text -> outcome set (for the fresh-process cross-check)
}

type c03L2Res struct {
	Text     string   `json:"text"`
	Cmd      string   `json:"cmd"`
	Bound    int      `json:"bound"`
	Outcomes []string `json:"outcomes"`
	Sched    []int    `json:"schedule"`
}

func C03(r *core.Run) {
	if !r.IsWorker() && !core.Instrumented() {
		r.HarnessError("C03 needs the map-range instrumented build (vtool-sched)")
		return
	}
	dir := ""
	if !r.IsWorker() {
		dir = core.Scratch("c03")
		defer os.RemoveAll(dir)
	}
	maxTok := r.Pick(4, 5)
	if r.Degraded() {
		maxTok = 1
	}
	type l1In struct {
		Dir    string
		MaxTok int
	}
	// ---- L1: line classification, exhaustive over the directive alphabet ----
	l1, deaths := core.Parallel(r, "L1", l1In{dir, maxTok}, r.Workers, func(in l1In, shard, n int, emit func(c03L1Out)) {
		wd := filepath.Join(in.Dir, fmt.Sprint("l1-", shard))
		c03Tree().Materialise(wd)
		ctx := crsctx.New(wd, "toolchain.yaml")
		var out c03L1Out
		enumSeq(len(c03Tokens), in.MaxTok, func(idx int, seq []int) {
			if idx%n != shard {
				return
			}
			line := c19Build(seq, c03Tokens, "")
			r.Inflight("L1:" + line)
			outs, sched, execs := outcomesUnder(1, func() string { return parseObs(ctx, line+"\n") })
			out.Lines++
			out.Execs += execs
			if len(outs) > 1 {
				out.Amb = append(out.Amb, c03Amb{line, outs, sched})
			}
		})
		emit(out)
	})
	var amb []c03Amb
	l1Lines, l1Execs := 0, 0
	for _, o := range l1 {
		l1Lines += o.Lines
		l1Execs += o.Execs
		amb = append(amb, o.Amb...)
	}
	sort.Slice(amb, func(i, j int) bool {
		if len(amb[i].Line) != len(amb[j].Line) {
			return len(amb[i].Line) < len(amb[j].Line)
		}
		return amb[i].Line < amb[j].Line
	})
	// minimal ambiguous lines: no ambiguous line is a proper token-subsequence... keep those whose every one-token deletion is unambiguous
	ambSet := map[string]bool{}
	for _, a := range amb {
		ambSet[a.Line] = true
	}
	// ---- L2: whole commands under bounded schedules ----
	menu := append([]string{}, c03Menu...)
	minimalAmb := c03MinimalAmb(amb, ambSet)
	for _, a := range minimalAmb {
		found := false
		for _, m := range menu {
			if m == a.Line {
				found = true
			}
		}
		if !found {
			menu = append(menu, a.Line)
		}
	}
	var cases []c03L2Case
	add := func(lines []string, bound int, cmds ...string) {
		t := strings.Join(lines, "\n") + "\n"
		for _, c := range cmds {
			cases = append(cases, c03L2Case{Text: t, Cmd: c, Bound: bound})
		}
	}
	all := []string{"generate", "format", "check", "update", "compare"}
	for _, a := range menu {
		// one line: every command, 2 (quick) / 3 (thorough) deviations
		add([]string{a}, r.Pick(2, 3), all...)
		for _, b := range menu {
			if r.Degraded() || !inproc.ShimAvailable {
				break
			}
			// two lines: every command at 1 deviation; thorough: generate and format at 2
			add([]string{a, b}, 1, all...)
			if r.Thorough() {
				add([]string{a, b}, 2, "generate", "format")
				for _, c := range menu {
					add([]string{a, b, c}, 1, "generate", "format")
				}
			}
		}
	}
	// definition chains of depth 3 and 4 under all (depth 3) / <= 3 deviations (depth 4) of the definition map orders
	chain3 := "##!> define z v\n##!> define y u{{z}}\n##!> define x {{y}}w\n{{x}}\nk{{y}}\n"
	chain4 := "##!> define d [0-9]\n##!> define o {{d}}{1,3}\n##!> define i {{o}}\\.{{o}}\n##!> define h {{i}}|host\nx{{h}}\n"
	for _, c := range all {
		cases = append(cases, c03L2Case{chain3, c, 1000, true}, c03L2Case{chain4, c, r.Pick(2, 3), true})
	}
	b1, b2, b3 := r.Pick(2, 3), r.Pick(1, 2), r.Pick(0, 1)
	type l2In struct {
		Dir   string
		Cases []c03L2Case
	}
	l2, d2 := core.Parallel(r, "L2", l2In{dir, cases}, r.Workers, func(in l2In, shard, n int, emit func(c03L2Out)) {
		wd := filepath.Join(in.Dir, fmt.Sprint("l2-", shard))
		c03Tree().Materialise(wd)
		root := inproc.NewRoot(wd)
		out := c03L2Out{Outcomes: map[string][]string{}}
		cmds := map[string]c03Cmd{}
		for _, c := range c03Cmds {
			cmds[c.Name] = c
		}
		for i, c := range in.Cases {
			if i%n != shard {
				continue
			}
			r.Inflight("L2:" + c.Cmd + ":" + c.Text)
			cmd := cmds[c.Cmd]
			core.SiteFilter = nil
			if c.DefsOnly {
				core.SiteFilter = func(site string) bool { return strings.HasSuffix(site, ":expandDefinitions") }
			}
			// self-check of the seam: the same schedule replayed twice gives the same observation
			outs, sched, execs := outcomesUnder(c.Bound, func() string { return cmd.Run(root, c.Text) })
			out.Cases++
			out.Execs += execs
			if c.Cmd == "generate" {
				out.Outcomes[c.Text] = outs
			}
			if len(outs) > 1 {
				a := cmd.Run(root, c.Text)
				var b string
				core.RunSchedule(sched, func() { b = cmd.Run(root, c.Text) })
				var b2 string
				core.RunSchedule(sched, func() { b2 = cmd.Run(root, c.Text) })
				if b != b2 || a != outs[0] {
					out.Multi = append(out.Multi, c03L2Res{c.Text, "harness", c.Bound, []string{a, outs[0], b, b2}, sched})
					continue
				}
				out.Multi = append(out.Multi, c03L2Res{c.Text, c.Cmd, c.Bound, outs, sched})
			}
		}
		emit(out)
	})
	deaths = append(deaths, d2...)
	// ---- fresh-process cross-check: outcomes of the uninstrumented binary must be members of the explored sets ----
	genSets := map[string][]string{}
	l2Cases, l2Execs := 0, 0
	var multi []c03L2Res
	for _, o := range l2 {
		l2Cases += o.Cases
		l2Execs += o.Execs
		multi = append(multi, o.Multi...)
		for k, v := range o.Outcomes {
			genSets[k] = v
		}
	}
	var texts []string
	for t := range genSets {
		if strings.Count(t, "\n") <= 2 {
			texts = append(texts, t)
		}
	}
	sort.Strings(texts)
	type fpIn struct {
		Dir   string
		Texts []string
		Sets  map[string][]string
		Reps  int
	}
	type fpOut struct {
		Runs int
		Bad  []string
	}
	fp, d3 := core.Parallel(r, "fresh", fpIn{dir, texts, genSets, r.Pick(3, 10)}, r.Workers, func(in fpIn, shard, n int, emit func(fpOut)) {
		wd := filepath.Join(in.Dir, fmt.Sprint("fp-", shard))
		c03Tree().Materialise(wd)
		var out fpOut
		for i, t := range in.Texts {
			if i%n != shard {
				continue
			}
			for k := 0; k < in.Reps; k++ {
				cli := core.RunCLI(r.Crs, wd, t, nil, "-d", wd, "regex", "generate", "-")
				out.Runs++
				ok := false
				for _, o := range in.Sets[t] {
					if strings.HasPrefix(o, "ok:") {
						ok = ok || (cli.Exit == 0 && "ok:"+cli.Stdout == o)
					} else {
						ok = ok || cli.Exit != 0
					}
				}
				if !ok {
					out.Bad = append(out.Bad, fmt.Sprintf("%q: cli exit=%d stdout=%q not in explored set %q", t, cli.Exit, cli.Stdout, in.Sets[t]))
				}
			}
		}
		emit(out)
	})
	deaths = append(deaths, d3...)
	// ---- process identity / environment / time: the real CLI under varied environments must print the same bytes ----
	type envOut struct {
		Runs int
		Bad  []string
	}
	envOuts, d4 := core.Parallel(r, "env", fpIn{Dir: dir, Texts: menu, Reps: r.Pick(0, 1)}, r.Workers, func(in fpIn, shard, n int, emit func(envOut)) {
		wd := filepath.Join(in.Dir, fmt.Sprint("env-", shard))
		var out envOut
		alt := filepath.Join(wd, "bin dir")
		os.MkdirAll(alt, 0o755)
		bin, _ := os.ReadFile(r.Crs)
		altBin := filepath.Join(alt, "crs-toolchain")
		os.WriteFile(altBin, bin, 0o755)
		variants := []struct {
			Name string
			Bin  string
			Env  []string
			Sub  bool
			Wait bool
		}{
			{Name: "baseline", Bin: r.Crs},
			{Name: "GOMAXPROCS=1", Bin: r.Crs, Env: []string{"GOMAXPROCS=1"}},
			{Name: "locale and time zone", Bin: r.Crs, Env: []string{"TZ=Asia/Tokyo", "LANG=de_DE.UTF-8", "LC_ALL=tr_TR.UTF-8"}},
			{Name: "user, host, terminal", Bin: r.Crs, Env: []string{"USER=someone", "LOGNAME=someone", "HOSTNAME=elsewhere", "TERM=dumb", "COLUMNS=20", "NO_COLOR="}},
			{Name: "binary at another path", Bin: altBin},
			{Name: "a CI runner's environment", Bin: r.Crs, Env: []string{"GITHUB_ACTIONS=true", "GITHUB_WORKFLOW=lint", "GITHUB_WORKSPACE=/home/runner/work", "RUNNER_OS=Linux", "GITLAB_CI=true", "TERM=xterm-256color", "CLICOLOR_FORCE=1", "DEBUG=1", "LOG_LEVEL=trace"}},
			{Name: "relative -d from a subdirectory", Bin: r.Crs, Sub: true},
			{Name: "one second later", Bin: r.Crs, Wait: true},
		}
		idx := 0
		for li, line := range in.Texts {
			if in.Reps == 0 && li%3 != 0 {
				continue // quick tier: every third line of the menu
			}
			if idx++; idx%n != shard {
				continue
			}
			text := line + "\nsecond|entry\n"
			for _, cmd := range [][]string{{"regex", "generate", "123456"}, {"regex", "compare", "123456"}, {"regex", "compare", "--all"}, {"regex", "format", "--all", "--check"}, {"regex", "update", "--all"}, {"regex", "format", "--all"}} {
				var first string
				for vi, v := range variants {
					if v.Wait && idx%8 != 0 {
						continue
					}
					os.RemoveAll(filepath.Join(wd, "crs"))
					t := core.Tree{}
					for k, c := range c03Tree() {
						t["crs/"+k] = c
					}
					t["crs/regex-assembly/123456.ra"] = text
					t["crs/regex-assembly/123457.ra"] = "other\n  file\n"
					t["crs/rules/REQUEST-123-TEST.conf"] = rulesFile(ruleSpec{ID: "123456", Regex: "OLD"}, ruleSpec{ID: "123457", Regex: "OLD2"})
					t.Materialise(wd)
					if v.Wait {
						time.Sleep(1100 * time.Millisecond)
					}
					cwd, args := wd, append([]string{"-d", filepath.Join(wd, "crs")}, cmd...)
					if v.Sub {
						cwd, args = filepath.Join(wd, "crs/rules"), append([]string{"-d", ".."}, cmd...)
					}
					res := core.RunCLI(v.Bin, cwd, "", v.Env, args...)
					out.Runs++
					obs := fmt.Sprint(res.Exit, "\x00", res.Stdout, "\x00", treeHash(core.ReadTree(filepath.Join(wd, "crs"))))
					if vi == 0 {
						first = obs
					} else if obs != first {
						out.Bad = append(out.Bad, fmt.Sprintf("`%s` on %q: variant %q gives a different result than the baseline (exit/stdout/tree): %q vs %q", strings.Join(cmd, " "), text, v.Name, tailStr(obs, 160), tailStr(first, 160)))
					}
				}
			}
		}
		emit(out)
	})
	deaths = append(deaths, d4...)
	// --all walks over a tree in which several assembly files address the same operand: which one wins must not
	// depend on a map order (every schedule with <= 1 (thorough: 2) deviations at the map ranges outside parseLine; update --all and compare --all)
	walkOuts, d6 := core.Parallel(r, "walks", fpIn{Dir: dir, Reps: r.Pick(1, 2)}, 2, func(in fpIn, shard, n int, emit func(envOut)) {
		wd := filepath.Join(in.Dir, fmt.Sprint("walk-", shard))
		var out envOut
		mk := func() {
			os.RemoveAll(wd)
			t := c03Tree()
			t["regex-assembly/123456.ra"] = "plain\n"
			t["regex-assembly/123456-chain0.ra"] = "zero\n"
			t["regex-assembly/123456-chain00.ra"] = "doublezero\n"
			t["regex-assembly/sub/123456.ra"] = "nested\n"
			t["regex-assembly/123457.ra"] = "  other\n"
			t["regex-assembly/123457-chain0.ra"] = "otherzero\n\n"
			t["rules/REQUEST-123-TEST.conf"] = rulesFile(ruleSpec{ID: "123456", Regex: "OLD"}, ruleSpec{ID: "123457", Regex: "OLD2"})
			t.Materialise(wd)
		}
		mk()
		root := inproc.NewRoot(wd)
		cmds := []struct {
			Name string
			Run  func() inproc.CmdResult
		}{{"update --all", root.UpdateAll}, {"compare --all", func() inproc.CmdResult { return root.CompareAll(false) }}}
		c := cmds[shard%len(cmds)]
		conf := filepath.Join(wd, "rules/REQUEST-123-TEST.conf")
		pristine, _ := os.ReadFile(conf)
		core.SiteFilter = func(site string) bool { return !strings.HasSuffix(site, ":parseLine") }
		defer func() { core.SiteFilter = nil }()
		outs, _, ex := outcomesUnder(in.Reps, func() string {
			os.WriteFile(conf, pristine, 0o644)
			res := c.Run()
			return res.Obs() + "\x00" + treeHash(core.ReadTree(wd))
		})
		out.Runs += ex
		if len(outs) > 1 {
			out.Bad = append(out.Bad, fmt.Sprintf("`%s` over a tree with several assembly files per operand has %d outcomes under different map orders: %q", c.Name, len(outs), clip(outs, 100)))
		}
		emit(out)
	})
	deaths = append(deaths, d6...)
	envOuts = append(envOuts, walkOuts...)
	// cmdline words with every combination of markers under every schedule with <= 2 deviations
	cmdOuts, d7 := core.Parallel(r, "cmdwords", fpIn{Dir: dir}, r.Workers, func(in fpIn, shard, n int, emit func(envOut)) {
		wd := filepath.Join(in.Dir, fmt.Sprint("cmdw-", shard))
		c03Tree().Materialise(wd)
		root := inproc.NewRoot(wd)
		var out envOut
		idx := 0
		for _, shell := range []string{"unix", "windows"} {
			// (blocks with a repeated line next to other alternatives are part of the same stage, see below)
			for _, w := range []string{"vim", "vim@", "vim~", "vim~@", "vim@~", "vim@@", "vim~~", `vim\@~`, `vim\~@`, `vim~\@`, "v@m", "'vim~@", "a b@~"} {
				for _, tpl := range []string{"##!> cmdline %s\n%s\n##!<\n", "##!> cmdline %s\nls\n%s\ncat~\n##!<\nfoo\n", "##!> assemble\n##!> cmdline %s\n%s\n##!<\n##!=>\nx\n##!<\n"} {
					if idx++; idx%n != shard {
						continue
					}
					text := fmt.Sprintf(tpl, shell, w)
					outs, _, ex := outcomesUnder(2, func() string { return root.Generate(text).String() })
					out.Runs += ex
					if len(outs) > 1 {
						out.Bad = append(out.Bad, fmt.Sprintf("`regex generate` of %q has %d outcomes under different map orders: %q", text, len(outs), clip(outs, 100)))
					}
				}
			}
		}
		// a line that occurs twice among other alternatives (directly, and through two includes that share a word)
		for ri, text := range []string{"foo\nbar\nfoo\nbaz\n", "alpha\nbeta\nalpha\ngamma\ndelta\n", "##!> include inc\nzz\n##!> include inc\nqq\n", "##!> include dup\nother\nthing\n",
			"##!> assemble\nfoo\nbar\nfoo\nbaz\n##!<\nqux\n", "##!> cmdline unix\nls\ncat\nls\nwho\n##!<\n"} {
			if ri%n != shard {
				continue
			}
			outs, _, ex := outcomesUnder(2, func() string { return root.Generate(text).String() })
			out.Runs += ex
			if len(outs) > 1 {
				out.Bad = append(out.Bad, fmt.Sprintf("`regex generate` of %q has %d outcomes under different map orders: %q", text, len(outs), clip(outs, 100)))
			}
		}
		emit(out)
	})
	deaths = append(deaths, d7...)
	envOuts = append(envOuts, cmdOuts...)
	// the directory the process is started in (holding files named like the ones the tree refers to) is not an input
	cwdOuts, d8 := core.Parallel(r, "cwd", fpIn{Dir: dir}, 1, func(in fpIn, shard, n int, emit func(envOut)) {
		wd := filepath.Join(in.Dir, "cwd")
		var out envOut
		for _, withConfig := range []bool{false, true} {
			os.RemoveAll(wd)
			t := core.Tree{}
			for k, c := range c03Tree() {
				if withConfig || !strings.HasSuffix(k, "toolchain.yaml") {
					t["crs/"+k] = c
				}
			}
			t["crs/regex-assembly/123456.ra"] = "##!> cmdline unix\ncurl@\nls -l\n##!<\n##!> include inc\n##!> include-except dup ex\n"
			t["crs/rules/REQUEST-123-TEST.conf"] = rulesFile(ruleSpec{ID: "123456", Regex: "OLD"})
			// decoys in other directories: a configuration file, include files, a directory named like an include file
			decoyCfg := "patterns:\n  anti_evasion:\n    unix: 'DECOY*'\n  anti_evasion_suffix:\n    unix: 'DECOYSUFFIX'\n"
			t["elsewhere/toolchain.yaml"] = decoyCfg
			t["elsewhere/inc.ra"] = "decoyinclude\n"
			t["elsewhere/dup.ra/"] = ""
			t["elsewhere/ex.ra"] = "alpha\n"
			t["elsewhere/regex-assembly.bak/toolchain.yaml"] = decoyCfg
			t["elsewhere/include/inc.ra"] = "decoyinclude2\n"
			t["elsewhere/123456.ra"] = "decoyrule\n"
			t.Materialise(wd)
			root := filepath.Join(wd, "crs")
			for _, cmd := range [][]string{{"regex", "generate", "123456"}, {"regex", "compare", "123456"}, {"regex", "update", "123456"}, {"regex", "format", "--check", "123456"}} {
				var first string
				for ci, cwd := range []string{wd, filepath.Join(wd, "elsewhere"), "/", root, filepath.Join(root, "regex-assembly/include")} {
					os.WriteFile(filepath.Join(root, "rules/REQUEST-123-TEST.conf"), []byte(rulesFile(ruleSpec{ID: "123456", Regex: "OLD"})), 0o644)
					res := core.RunCLI(r.Crs, cwd, "", nil, append([]string{"-d", root}, cmd...)...)
					out.Runs++
					conf, _ := os.ReadFile(filepath.Join(root, "rules/REQUEST-123-TEST.conf"))
					obs := fmt.Sprint(res.Exit, "\x00", res.Stdout, "\x00", string(conf))
					if ci == 0 {
						first = obs
					} else if obs != first {
						out.Bad = append(out.Bad, fmt.Sprintf("`%s` on a tree %s configuration file gives a different result when started in %s than in the parent of the root: %q vs %q", strings.Join(cmd, " "), map[bool]string{true: "with a", false: "without"}[withConfig], strings.TrimPrefix(cwd, wd), tailStr(obs, 140), tailStr(first, 140)))
					}
				}
			}
		}
		emit(out)
	})
	deaths = append(deaths, d8...)
	envOuts = append(envOuts, cwdOuts...)
	// what earlier runs did is not an input: a tree that was used before (with another configuration, other
	// assembly files, another stored operand) and a fresh copy of its final files give the same results
	histOuts, d9 := core.Parallel(r, "history", fpIn{Dir: dir}, 1, func(in fpIn, shard, n int, emit func(envOut)) {
		var out envOut
		cfg := func(ev string) string {
			return "patterns:\n  anti_evasion:\n    unix: '" + ev + "'\n    windows: '[w]*'\n  anti_evasion_suffix:\n    unix: '\\s'\n    windows: ';'\n"
		}
		prog := "##!> cmdline unix\ncurl@\nls -l\n##!<\n##!> include inc\n"
		type step struct{ file, content string }
		final := map[string]string{"regex-assembly/toolchain.yaml": cfg("[q]*"), "regex-assembly/123456.ra": prog, "regex-assembly/include/inc.ra": "xa\nyb\n", "regex-assembly/strict.yaml": cfg("[s]+")}
		histories := [][]step{
			{{"regex-assembly/toolchain.yaml", cfg("[old]*")}},
			{{"regex-assembly/123456.ra", "other\n"}},
			{{"regex-assembly/include/inc.ra", "zz\n"}},
			{{"regex-assembly/strict.yaml", cfg("[older]+")}},
			{{"regex-assembly/toolchain.yaml", ""}, {"regex-assembly/toolchain.yaml", cfg("[old]*")}},
		}
		cmds := [][]string{{"regex", "generate", "123456"}, {"regex", "generate", "-"}, {"-f", "strict.yaml", "regex", "generate", "123456"}, {"regex", "compare", "123456"}, {"regex", "update", "123456"}, {"regex", "update", "--all"}}
		for hi, hist := range histories {
			used := filepath.Join(in.Dir, "hist-used")
			fresh := filepath.Join(in.Dir, fmt.Sprint("hist-fresh", hi))
			os.RemoveAll(used)
			// the used tree: every earlier state is visited with every command, then the final files are written
			t := core.Tree{"regex-assembly/exclude/": "", "rules/REQUEST-123-TEST.conf": rulesFile(ruleSpec{ID: "123456", Regex: "OLD"})}
			for k, v := range final {
				t[k] = v
			}
			t.Materialise(used)
			for _, st := range hist {
				os.WriteFile(filepath.Join(used, st.file), []byte(st.content), 0o644)
				for _, cmd := range cmds {
					core.RunCLI(r.Crs, used, prog, nil, append([]string{"-d", used}, cmd...)...)
					out.Runs++
				}
			}
			t.Materialise(used)
			os.RemoveAll(fresh)
			t.Materialise(fresh)
			for _, cmd := range cmds {
				var obs [2]string
				for i, root := range []string{used, fresh} {
					os.WriteFile(filepath.Join(root, "rules/REQUEST-123-TEST.conf"), []byte(rulesFile(ruleSpec{ID: "123456", Regex: "OLD"})), 0o644)
					res := core.RunCLI(r.Crs, root, prog, nil, append([]string{"-d", root}, cmd...)...)
					out.Runs++
					conf, _ := os.ReadFile(filepath.Join(root, "rules/REQUEST-123-TEST.conf"))
					obs[i] = fmt.Sprint(res.Exit, "\x00", res.Stdout, "\x00", string(conf))
				}
				if obs[0] != obs[1] {
					out.Bad = append(out.Bad, fmt.Sprintf("`%s` gives a different result on a tree that was used before (history %d: %s changed since the first runs) than on a fresh copy of the same files: %q vs %q", strings.Join(cmd, " "), hi, hist[0].file, tailStr(obs[0], 140), tailStr(obs[1], 140)))
				}
			}
			os.RemoveAll(fresh)
		}
		emit(out)
	})
	deaths = append(deaths, d9...)
	envOuts = append(envOuts, histOuts...)
	// the way standard input arrives (one write, several writes with pauses, more than a pipe buffer holds) is
	// part of "any process": `generate -` must print what `generate FILE` prints for the same bytes
	stdinOuts, d5 := core.Parallel(r, "stdin", fpIn{Dir: dir, Texts: menu}, r.Workers, func(in fpIn, shard, n int, emit func(envOut)) {
		wd := filepath.Join(in.Dir, fmt.Sprint("stdin-", shard))
		var out envOut
		texts := []string{strings.Repeat("alpha\nbeta|gamma\n##! note\n", 4000)} // > 64 KiB
		for li, line := range in.Texts {
			if li%4 == 0 {
				texts = append(texts, line+"\nsecond|entry\n##!> include inc\nlast\n")
			}
		}
		for ti, text := range texts {
			if ti%n != shard {
				continue
			}
			os.RemoveAll(wd)
			t := c03Tree()
			t["regex-assembly/123456.ra"] = text
			t.Materialise(wd)
			file := core.RunCLI(r.Crs, wd, "", nil, "-d", wd, "regex", "generate", "123456")
			want := fmt.Sprint(file.Exit, "\x00", file.Stdout)
			half := len(text) / 2
			for name, chunks := range map[string][]string{"one write": {text}, "first byte, pause, rest": {text[:1], text[1:]}, "three writes": {text[:half/2], text[half/2 : half], text[half:]}, "line by line start": {text[:strings.Index(text, "\n")+1], text[strings.Index(text, "\n")+1:]}} {
				res := core.RunCLIChunked(r.Crs, wd, chunks, 30*time.Millisecond, nil, "-d", wd, "regex", "generate", "-")
				out.Runs++
				if got := fmt.Sprint(res.Exit, "\x00", res.Stdout); got != want {
					out.Bad = append(out.Bad, fmt.Sprintf("`regex generate -` with the %d bytes of the file arriving as %s gives %q, `regex generate 123456` gives %q", len(text), name, tailStr(got, 120), tailStr(want, 120)))
				}
			}
		}
		emit(out)
	})
	deaths = append(deaths, d5...)
	envOuts = append(envOuts, stdinOuts...)
	if r.IsWorker() {
		return
	}
	// walks and cmdwords are schedule executions of the in-process seam, not CLI runs
	schedRuns := 0
	for _, o := range append(append([]envOut{}, walkOuts...), cmdOuts...) {
		schedRuns += o.Runs
	}
	r.Cov["walk_and_cmdword_schedule_executions"] = schedRuns
	envRuns := -schedRuns
	for _, o := range envOuts {
		envRuns += o.Runs
		for _, b := range o.Bad {
			r.Report(core.Violation{Clause: "environment-invariant", Key: b, What: b})
		}
	}
	r.Cov["environment_variation_runs"] = envRuns
	for _, d := range deaths {
		r.HarnessError("worker %s/%d %s on %q: %s", d.Stage, d.Shard, d.Kind, d.Case, tailStr(d.Log, 400))
	}
	fresh := 0
	for _, o := range fp {
		fresh += o.Runs
		for _, b := range o.Bad {
			r.Report(core.Violation{Clause: "fresh-process-in-explored-set", Key: b, What: "a fresh process produced an outcome the schedule explorer did not: " + b})
		}
	}
	for _, a := range minimalAmb {
		r.Report(core.Violation{Clause: "line-classification-unique", Key: a.Line,
			What:   fmt.Sprintf("line %q is parsed differently depending on which directive pattern the map iteration tries first: %q", a.Line, a.Outcomes),
			Detail: a,
			Repro:  []string{fmt.Sprintf("for i in $(seq 20); do printf '%%s\\n' %s | crs-toolchain -d <root with include/inc.ra> regex generate -; echo; done | sort | uniq -c", core.ShellQuote(a.Line))}})
	}
	// minimal multi-outcome programs per command: drop those that contain a smaller multi-outcome program of the same command
	sort.Slice(multi, func(i, j int) bool {
		if len(multi[i].Text) != len(multi[j].Text) {
			return len(multi[i].Text) < len(multi[j].Text)
		}
		return multi[i].Text < multi[j].Text
	})
	var kept []c03L2Res
	for _, m := range multi {
		if m.Cmd == "harness" {
			r.HarnessError("schedule replay not deterministic for %q: %q", m.Text, m.Outcomes)
			continue
		}
		sub := false
		mlines := strings.Split(strings.TrimSuffix(m.Text, "\n"), "\n")
		for _, k := range kept {
			if k.Cmd != m.Cmd {
				continue
			}
			klines := strings.Split(strings.TrimSuffix(k.Text, "\n"), "\n")
			if isSubseq(klines, mlines) {
				sub = true
				break
			}
		}
		if !sub {
			kept = append(kept, m)
		}
	}
	for _, m := range kept {
		r.Report(core.Violation{Clause: "single-outcome-" + m.Cmd, Key: m.Text,
			What:   fmt.Sprintf("%s of program %q has %d different results depending on map iteration order: %q", m.Cmd, m.Text, len(m.Outcomes), clip(m.Outcomes, 200)),
			Detail: m,
			Repro:  []string{fmt.Sprintf("for i in $(seq 20); do printf %%s %s | crs-toolchain -d <root> regex generate -; echo; done | sort | uniq -c", core.ShellQuote(m.Text))}})
	}
	r.Cov["evaluations"] = l1Execs + l2Execs
	r.Cov["states"] = l1Lines + l2Cases
	r.Cov["transitions"] = l1Execs + l2Execs
	r.Cov["schedules_explored"] = l1Execs + l2Execs
	r.Cov["l1_lines"] = l1Lines
	r.Cov["l1_ambiguous_lines"] = len(amb)
	r.Cov["l1_minimal_ambiguous"] = len(minimalAmb)
	r.Cov["l2_cases"] = l2Cases
	r.Cov["l2_multi_outcome"] = len(multi)
	r.Cov["l2_menu"] = len(menu)
	r.Cov["distinct_nontrivial"] = l2Cases
	r.Cov["traces_validated_against_impl"] = fresh + envRuns
	r.Cov["exhaustive"] = len(deaths) == 0
	r.Cov["bound"] = map[string]any{"l1_tokens": maxTok, "l1_deviations": 1, "l2_len_at_dev1": b1, "l2_len_at_dev2": b2, "l2_len_at_dev3": b3}
	r.Cov["rule"] = "L1: every line of <= l1_tokens tokens over the 16-token directive alphabet parsed alone under every schedule with <= 1 deviation (makes any pattern the first tried); L2: every program of <= k lines over the line menu (static + L1-ambiguous lines) x {generate, format, format --check, update, compare} under every map-iteration schedule with <= d deviations; states = lines + (program, command) cases, transitions = executions; traces_validated = fresh uninstrumented processes whose outcome had to be a member of the explored outcome set; stage stdin: `generate -` fed the same bytes as one write, byte + rest, three writes with pauses and as more than a pipe buffer, against `generate FILE`; stage walks: update --all and compare --all over a tree in which several assembly files address one operand, under every schedule within the deviation bound; stage env: seven environment variants per command"
	r.Cov["samples"] = []any{
		map[string]any{"level": "L1", "line": "##!##!> include inc"},
		map[string]any{"level": "L2", "program": "##!> include-except inc ex -- a b b c\n", "cmd": "generate", "deviations": 2},
		map[string]any{"level": "L2", "program": "##!> define d2 {{d1}}y\n##!> define d1 x\n", "cmd": "update", "deviations": 2},
	}
	r.Assume = append(r.Assume,
		"map iteration is the only scheduling nondeterminism on these paths (no goroutines, clocks, pids or environment reads in generate/format/update/compare)",
		"third-party packages are not instrumented (mergo merges one-key maps, yaml decodes into structs, rassemble-go ranges over slices only)",
		"process identity / hash seed is sampled only as a cross-check (fresh-process-in-explored-set), the deciding step is the schedule enumeration")
}

func clip(xs []string, n int) []string {
	out := make([]string, len(xs))
	for i, x := range xs {
		if len(x) > n {
			x = x[:n] + "..."
		}
		out[i] = x
	}
	return out
}

func isSubseq(a, b []string) bool {
	i := 0
	for _, x := range b {
		if i < len(a) && a[i] == x {
			i++
		}
	}
	return i == len(a)
}

// c03MinimalAmb keeps ambiguous lines none of whose one-token deletions is ambiguous.
func c03MinimalAmb(amb []c03Amb, set map[string]bool) []c03Amb {
	var out []c03Amb
	for _, a := range amb {
		toks := c03Tokenize(a.Line)
		minimal := true
		for i := range toks {
			l := strings.Join(append(append([]string{}, toks[:i]...), toks[i+1:]...), "")
			if set[l] {
				minimal = false
				break
			}
		}
		if minimal {
			out = append(out, a)
		}
	}
	return out
}

// c03Tokenize splits a generated line back into alphabet tokens (longest match first).
func c03Tokenize(line string) []string {
	toks := append([]string{}, c03Tokens...)
	sort.Slice(toks, func(i, j int) bool { return len(toks[i]) > len(toks[j]) })
	var out []string
	for len(line) > 0 {
		found := false
		for _, t := range toks {
			if strings.HasPrefix(line, t) {
				out = append(out, t)
				line = line[len(t):]
				found = true
				break
			}
		}
		if !found {
			out = append(out, line[:1])
			line = line[1:]
		}
	}
	return out
}
