package checks

import (
	"fmt"
	"os"
	"path/filepath"
	"sort"
	"strings"

	"github.com/coreruleset/crs-toolchain/v2/zz_verif/core"
	"github.com/coreruleset/crs-toolchain/v2/zz_verif/inproc"
	"github.com/coreruleset/crs-toolchain/v2/zz_verif/ref"
)

func init() { Registry["C07"] = C07 }

var c07Names = []string{"x", "0y", "-z_9"} // names may start with a digit or a hyphen
var c07Values = []string{"v", "a{2}", "[bc]+", "(?:p|q)", "{{0y}}w", "u{{-z_9}}", "{{0y}}{{-z_9}}", "{{0y}}-{{0y}}", "[$_a-z]+", `\$1x${n}`, `""`, "w@"}

// bodies: where the references stand
var c07Bodies = [][]string{
	{"{{x}}a", "k"},
	{"a{{x}}b"},
	{"a{{x}}", "{{x}}{{x}}"},
	{"{{0y}}|{{-z_9}}", "{{x}}"},
	{"##!^ {{x}}", "m"},
	{"##!$ {{0y}}", "m"},
	{"##!> assemble", "{{x}}", "##!=>", "{{0y}}", "##!<", "n"},
	{"##!> include usesx", "o"},
	{"{{q}}a", "{{x}}"},
	{"##!> cmdline unix", "{{x}}", "##!<"},
	// definitions of an included file are that file's business: a name only the included file defines stays
	// literal in the including file, and a name both define keeps the including file's value outside the include
	{"{{w}}a", "##!> include defsw", "b{{w}}"},
	{"{{x}}t", "##!> include defsx", "{{x}}u", "{{0y}}"},
	// suffix pairs of an include line see the included text as written, definitions are expanded afterwards
	{"##!> include tailx -- @ ~", "k"},
	// an exclude file removes a line by its text as written, also when that text holds a reference that only the
	// including file can resolve
	{"##!> include-except usesx exx", "o"},
	// more suffix lines than prefix lines, references in all of them
	{"##!^ {{x}}", "##!$ {{0y}}", "##!$ {{x}}", "m"},
}

type c07Case struct {
	Defs      [][2]string `json:"definitions"` // in written order
	Body      int         `json:"body"`
	Placement int         `json:"placement"` // 0 all first, 1 all last, 2 first one before / rest after, 3 inside a block
}

func (c c07Case) program() (a string, b string) {
	var defs []string
	dm := map[string]string{}
	for _, d := range c.Defs {
		defs = append(defs, "##!> define "+d[0]+" "+d[1])
		dm[d[0]] = d[1]
	}
	body := c07Bodies[c.Body]
	var al []string
	switch c.Placement {
	case 4:
		// white space after the value is not part of the value
		for i, d := range defs {
			al = append(al, d+[]string{" ", "\t ", "  \t"}[i%3])
		}
		al = append(al, body...)
	case 0:
		al = append(append(al, defs...), body...)
	case 1:
		al = append(append(al, body...), defs...)
	case 2:
		al = append(append(append(al, defs[0]), body...), defs[1:]...)
	default:
		al = append(append(append(append(al, body...), "##!> assemble"), defs...), "w", "##!<")
	}
	a = strings.Join(al, "\n") + "\n"
	var bl []string
	for _, l := range al {
		if strings.HasPrefix(l, "##!> define ") {
			continue
		}
		if l == "##!> include usesx" {
			bl = append(bl, "a{{x}}b", "plain")
			continue
		}
		if l == "##!> include-except usesx exx" {
			bl = append(bl, "plain")
			continue
		}
		if l == "##!> include tailx -- @ ~" {
			bl = append(bl, "foo{{x}}", "plain~")
			continue
		}
		if l == "##!> include defsw" || l == "##!> include defsx" {
			bl = append(bl, "innerr", "plain")
			continue
		}
		bl = append(bl, l)
	}
	b = ref.ExpandDefs(strings.Join(bl, "\n")+"\n", dm)
	return
}

// acyclic: the reference graph among defined names has no cycle
func c07Acyclic(defs [][2]string) bool {
	dm := map[string]string{}
	for _, d := range defs {
		dm[d[0]] = d[1]
	}
	state := map[string]int{}
	var visit func(n string) bool
	visit = func(n string) bool {
		if state[n] == 1 {
			return false
		}
		if state[n] == 2 {
			return true
		}
		state[n] = 1
		for m := range dm {
			if strings.Contains(dm[n], "{{"+m+"}}") && !visit(m) {
				return false
			}
		}
		state[n] = 2
		return true
	}
	for n := range dm {
		if !visit(n) {
			return false
		}
	}
	return true
}

func c07Cases(maxK int) []c07Case {
	var out []c07Case
	var sets [][][2]string
	var rec func(i int, cur [][2]string)
	rec = func(i int, cur [][2]string) {
		if i == len(c07Names) {
			if len(cur) > 0 && len(cur) <= maxK && c07Acyclic(cur) {
				sets = append(sets, append([][2]string{}, cur...))
			}
			return
		}
		rec(i+1, cur)
		for _, v := range c07Values {
			rec(i+1, append(append([][2]string{}, cur...), [2]string{c07Names[i], v}))
		}
	}
	rec(0, nil)
	sort.SliceStable(sets, func(i, j int) bool { return len(sets[i]) < len(sets[j]) })
	for _, s := range sets {
		for _, perm := range permutations(len(s)) {
			d := make([][2]string, len(s))
			for i, p := range perm {
				d[i] = s[p]
			}
			for b := range c07Bodies {
				for pl := 0; pl < 5; pl++ {
					if pl == 2 && len(d) < 2 {
						continue
					}
					out = append(out, c07Case{d, b, pl})
				}
			}
		}
	}
	return out
}

type c07Fail struct {
	Case   c07Case  `json:"case"`
	A      string   `json:"program"`
	B      string   `json:"expanded_by_hand"`
	OutA   []string `json:"outcomes"`
	OutB   string   `json:"expected"`
	Clause string   `json:"clause"`
	Sched  []int    `json:"schedule,omitempty"`
}

type c07Out struct {
	Cases, Execs, Nontrivial int
	Fails                    []c07Fail
}

func c07Tree() core.Tree {
	t := c01Tree()
	t["regex-assembly/include/usesx.ra"] = "a{{x}}b\nplain\n"
	t["regex-assembly/exclude/exx.ra"] = "a{{x}}b\n"
	t["regex-assembly/include/tailx.ra"] = "foo{{x}}\nplain@\n"
	t["regex-assembly/include/defsw.ra"] = "##!> define w inner\n{{w}}r\nplain\n"
	t["regex-assembly/include/defsx.ra"] = "##!> define x inner\n{{x}}r\nplain\n"
	return t
}

func C07(r *core.Run) {
	if !r.IsWorker() && !core.Instrumented() {
		r.HarnessError("C07 needs the map-range instrumented build (vtool-sched)")
		return
	}
	dir := ""
	if !r.IsWorker() {
		dir = core.Scratch("c07")
		defer os.RemoveAll(dir)
	}
	type in struct {
		Dir         string
		MaxK, Bound int
		FullPerm    int // number of 3-definition programs explored under ALL map orders
	}
	spec := in{dir, r.Pick(2, 3), r.Pick(2, 2), r.Pick(16, 48)}
	if r.Degraded() {
		spec = in{dir, 1, 1, 16}
	}
	outs, deaths := core.Parallel(r, "sweep", spec, r.Workers, func(in in, shard, n int, emit func(c07Out)) {
		wd := filepath.Join(in.Dir, fmt.Sprint("w", shard))
		c07Tree().Materialise(wd)
		root := inproc.NewRoot(wd)
		core.SiteFilter = func(site string) bool { return strings.HasSuffix(site, ":expandDefinitions") }
		var out c07Out
		eval := func(c c07Case, bound int) {
			a, b := c.program()
			r.Inflight(a)
			want := root.Generate(b).String()
			oa, sched, ex := outcomesUnder(bound, func() string { return root.Generate(a).String() })
			out.Cases++
			out.Execs += ex + 1
			if a != b {
				out.Nontrivial++
			}
			if len(oa) == 1 && oa[0] == want {
				return
			}
			clause := "defs-bytes-equal-expanded"
			if len(oa) > 1 {
				clause = "schedule-invariant"
			}
			if c.Body == 8 && len(oa) == 1 && strings.HasPrefix(want, "ok:") && !strings.Contains(oa[0], "q") {
				clause = "undefined-stays-literal"
			}
			out.Fails = append(out.Fails, c07Fail{c, a, b, oa, want, clause, sched})
		}
		cases := c07Cases(in.MaxK)
		for i, c := range cases {
			if i%n != shard {
				continue
			}
			eval(c, in.Bound)
		}
		// ALL map orders (unbounded deviations) for real three-link chains x -> y -> z, every permutation of the lines
		full := 0
		for _, zv := range []string{"v", "a{2}", "[bc]+", "(?:p|q)"} {
			chain := [][2]string{{"x", "{{0y}}w"}, {"0y", "u{{-z_9}}"}, {"-z_9", zv}}
			if zv == "a{2}" || zv == "(?:p|q)" {
				// a diamond: the last name is reached from the first one along two paths
				chain[0][1] = "{{0y}}:{{-z_9}}"
			}
			for _, perm := range permutations(3) {
				for _, body := range []int{0, 3} {
					if full++; full > in.FullPerm {
						break
					}
					if full%n != shard {
						continue
					}
					d := [][2]string{chain[perm[0]], chain[perm[1]], chain[perm[2]]}
					eval(c07Case{d, body, 0}, 1000)
				}
			}
		}
		emit(out)
	})
	// conformance through the CLI: all single-definition programs
	type confRes struct {
		A       string
		In, Cli string
		Agree   bool
	}
	conf, d2 := core.Parallel(r, "conf", spec, r.Workers, func(in in, shard, n int, emit func(confRes)) {
		wd := filepath.Join(in.Dir, fmt.Sprint("c", shard))
		c07Tree().Materialise(wd)
		root := inproc.NewRoot(wd)
		for i, c := range c07Cases(1) {
			if i%n != shard {
				continue
			}
			a, _ := c.program()
			o := root.Generate(a)
			cli := core.RunCLI(r.Crs, wd, a, nil, "-d", wd, "regex", "generate", "-")
			emit(confRes{a, o.String(), cliClass(cli), agreeCLI(o, cli)})
		}
	})
	deaths = append(deaths, d2...)
	if r.IsWorker() {
		return
	}
	for _, d := range deaths {
		r.HarnessError("worker %s/%d %s on %q: %s", d.Stage, d.Shard, d.Kind, d.Case, tailStr(d.Log, 300))
	}
	validated := 0
	for _, c := range conf {
		if c.Agree {
			validated++
		} else {
			r.HarnessError("in-process and CLI disagree on %q: %s vs %s", c.A, c.In, c.Cli)
		}
	}
	var tot c07Out
	for _, o := range outs {
		tot.Cases += o.Cases
		tot.Execs += o.Execs
		tot.Nontrivial += o.Nontrivial
		tot.Fails = append(tot.Fails, o.Fails...)
	}
	// report the smallest failing case per (clause, body): fewest definitions, simplest placement
	sort.SliceStable(tot.Fails, func(i, j int) bool {
		a, b := tot.Fails[i], tot.Fails[j]
		if len(a.Case.Defs) != len(b.Case.Defs) {
			return len(a.Case.Defs) < len(b.Case.Defs)
		}
		if a.Case.Placement != b.Case.Placement {
			return a.Case.Placement < b.Case.Placement
		}
		return a.A < b.A
	})
	seen := map[string]bool{}
	for _, f := range tot.Fails {
		k := fmt.Sprintf("%s body=%d", f.Clause, f.Case.Body)
		if seen[k] {
			continue
		}
		seen[k] = true
		r.Report(core.Violation{Clause: f.Clause, Key: f.A,
			What:   fmt.Sprintf("program %q generates %q but with the references expanded by hand (%q) it generates %q", f.A, clip(f.OutA, 150), f.B, f.OutB),
			Detail: f, Repro: reproGenerate(f.A)})
	}
	r.Cov["evaluations"] = tot.Execs
	r.Cov["states"] = tot.Cases
	r.Cov["transitions"] = tot.Execs
	r.Cov["failing_cases"] = len(tot.Fails)
	r.Cov["distinct_nontrivial"] = tot.Nontrivial
	r.Cov["traces_validated_against_impl"] = validated
	r.Cov["exhaustive"] = len(deaths) == 0
	r.Cov["bound"] = map[string]any{"definitions": spec.MaxK, "values": c07Values, "bodies": len(c07Bodies), "placements": 5, "permutations": "all", "schedule_deviations": spec.Bound, "all_orders_programs": spec.FullPerm, "scheduled_sites": "the three map ranges of expandDefinitions"}
	r.Cov["rule"] = "all acyclic definition sets of <= k definitions over 3 names x 7 values, every permutation of the definition lines, 12 reference bodies, 5 placements (one with white space after the values); generated under every order of the definition maps with <= d deviations (a few three-definition programs under ALL orders) and compared byte for byte with the generation of the hand-expanded program; non-trivial = the program changes under expansion"
	cs := c07Cases(2)
	r.Cov["samples"] = []any{cs[0], cs[len(cs)/2], cs[len(cs)-1]}
	r.Assume = append(r.Assume, "byte equality is sound because the hand-expanded program feeds the assembler the same line sequence")
}
