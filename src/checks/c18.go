package checks

import (
	"fmt"
	"os"
	"path/filepath"
	"regexp"
	"sort"
	"strconv"
	"strings"

	"github.com/coreruleset/crs-toolchain/v2/zz_verif/core"
)

func init() { Registry["C18"] = C18 }

var c18Digits = []string{"12345", "123456", "1234567"}
var c18K = []string{"", "-chain", "-chain0", "-chain00", "-chain1", "-chain01", "-chain2", "-chain3", "-chain9", "-chain10", "-chain010", "-chain08", "-chain012", "-chain0377", "-chain255", "-chain256", "-chain300", "-chain65536", "-chain18446744073709551616", "-chain-1", "-chain1x", "-CHAIN1", "-chain 1"}
var c18Ext = []string{"", ".ra", ".ra.ra", ".raw", ".txt", ".RA", "xra", "_ra", "-ra", "ra", ".r", "."}
var c18Deco = []string{"", " ", "./", "sub/"}

var c18Grammar = regexp.MustCompile(`^(\d{6})(?:-chain(\d+))?(\.ra)?$`)

// refargs: the argument grammar of the statement
func refArg(arg string) (ok bool, file, id string, k int) {
	m := c18Grammar.FindStringSubmatch(arg)
	if m == nil {
		return false, "", "", 0
	}
	if m[2] != "" {
		v, err := strconv.ParseUint(m[2], 10, 64)
		if err != nil || v > 255 {
			return false, "", "", 0
		}
		k = int(v)
	}
	file = arg
	if m[3] == "" {
		file += ".ra"
	}
	return true, file, m[1], k
}

// the addressed rule has twelve chained links, so that offsets written with a leading zero (010, 012) can be told
// from what another number base would make of them
const c18ChainLen = 12

func c18Chain() []string {
	var c []string
	for i := 1; i <= c18ChainLen; i++ {
		c = append(c, fmt.Sprint("op", i))
	}
	return c
}

func token(name string) string {
	var sb strings.Builder
	sb.WriteString("f")
	for _, c := range name {
		if c >= 'a' && c <= 'z' || c >= '0' && c <= '9' {
			sb.WriteRune(c)
		} else if c >= 'A' && c <= 'Z' {
			sb.WriteRune(c + 32)
			sb.WriteString("up")
		} else {
			sb.WriteString("q")
		}
	}
	return sb.String()
}

func c18Args() []string {
	var out []string
	for _, deco := range c18Deco {
		for _, d := range c18Digits {
			for _, k := range c18K {
				for _, e := range c18Ext {
					if deco != "" && (d != "123456" || len(k) > 7 || e == ".raw" || e == ".RA" || len(e) > 0 && e[0] != '.' || len(e) < 3 && e != "") {
						continue
					}
					out = append(out, deco+d+k+e)
				}
			}
		}
	}
	return out
}

// c18Tree: every spelling has a file naming itself; rule 123456 has three chained links with distinct operands.
func c18Tree() core.Tree {
	t := core.Tree{"regex-assembly/toolchain.yaml": c01Yaml, "regex-assembly/exclude/": ""}
	for _, a := range c18Args() {
		name := strings.TrimSpace(a)
		if !strings.HasSuffix(name, ".ra") && !strings.Contains(filepath.Base(name), ".") {
			name += ".ra"
		}
		p := "regex-assembly/" + name
		t[p] = token(name) + "\n"
		t["regex-assembly/include/"+filepath.Base(name)] = "inc" + token(name) + "\n"
	}
	t["regex-assembly/include/inc.ra"] = "plaininclude\n"
	t["rules/REQUEST-123-TEST.conf"] = rulesFile(ruleSpec{ID: "123456", Regex: "op0", Chain: c18Chain()}, ruleSpec{ID: "123457", Regex: "other"})
	return t
}

type c18Res struct {
	Part    string   `json:"part"`
	Cmd     string   `json:"cmd"`
	Arg     string   `json:"arg"`
	Start   string   `json:"start_dir,omitempty"`
	Clause  string   `json:"clause"`
	Why     string   `json:"why"`
	Exit    int      `json:"exit"`
	Stdout  string   `json:"stdout"`
	Changed []string `json:"changed"`
}

func C18(r *core.Run) {
	r.CLIOnly = true
	dir := ""
	if !r.IsWorker() {
		dir = core.Scratch("c18")
		defer os.RemoveAll(dir)
	}
	type in struct{ Dir string }
	type out struct {
		Runs, Accepted, Rejected int
		Bad                      []c18Res
	}
	outs, deaths := core.Parallel(r, "args", in{dir}, r.Workers, func(in in, shard, n int, emit func(out)) {
		var o out
		sb := filepath.Join(in.Dir, fmt.Sprint("a", shard))
		tree := c18Tree()
		idx := 0
		fresh := func() core.Snap {
			os.RemoveAll(sb)
			tree.Materialise(sb)
			return core.Snapshot(sb)
		}
		for _, arg := range c18Args() {
			ok, file, id, k := refArg(arg)
			for _, cmd := range []string{"generate", "update", "compare", "format"} {
				if idx++; idx%n != shard {
					continue
				}
				r.Inflight(cmd + " " + arg)
				before := fresh()
				res := core.RunCLI(r.Crs, sb, "", nil, "-d", sb, "regex", cmd, arg)
				changed := before.Diff(core.Snapshot(sb), false)
				o.Runs++
				bad := func(clause, why string) {
					o.Bad = append(o.Bad, c18Res{"args", cmd, arg, "", clause, why, res.Exit, tailStr(res.Stdout, 200), changed})
				}
				if cmd == "format" && !ok {
					// not a rule argument: an include name
					// (an include file is an assembly file: NAME stands for include/NAME.ra unless it ends in .ra itself;
					// C15: format writes only .ra files)
					name := arg
					if filepath.Ext(name) != ".ra" {
						name += ".ra"
					}
					p := "regex-assembly/include/" + name
					_, exists := tree[p]
					if strings.ContainsAny(arg, "/") || strings.HasPrefix(arg, " ") {
						exists = false
						if _, err := os.Stat(filepath.Join(sb, "regex-assembly/include", name)); err == nil {
							exists = true
							p = filepath.Clean("regex-assembly/include/" + name)
						}
					}
					if exists {
						o.Accepted++
						if res.Exit != 0 || len(changed) != 1 || changed[0] != "modified:"+p {
							bad("arg-resolution", "format of include name must rewrite exactly "+p)
						}
					} else {
						o.Rejected++
						if res.Exit == 0 || len(changed) > 0 {
							bad("arg-rejected", "no such include file: must fail and change nothing")
						}
					}
					continue
				}
				if !ok {
					o.Rejected++
					if res.Exit == 0 || len(changed) > 0 || (cmd == "generate" && res.Stdout != "") {
						bad("arg-rejected", "argument outside the grammar must be rejected")
					}
					continue
				}
				o.Accepted++
				tok := token(file)
				switch cmd {
				case "generate":
					if res.Exit != 0 || res.Stdout != tok || len(changed) > 0 {
						bad("arg-resolution", "generate must print the regex of regex-assembly/"+file+" = "+tok)
						break
					}
					o.Runs++
					st := core.RunCLI(r.Crs, sb, tree["regex-assembly/"+file], nil, "-d", sb, "regex", "generate", "-")
					if st.Exit != 0 || st.Stdout != res.Stdout {
						bad("stdin-equals-file", fmt.Sprintf("same bytes on stdin give %q", st.Stdout))
					}
				case "update":
					conf := tree["rules/REQUEST-123-TEST.conf"]
					if id == "123456" && k <= c18ChainLen {
						want := strings.Replace(conf, fmt.Sprintf("\"@rx op%d\"", k), "\"@rx "+tok+"\"", 1)
						got, _ := os.ReadFile(filepath.Join(sb, "rules/REQUEST-123-TEST.conf"))
						if res.Exit != 0 || string(got) != want || len(changed) != 1 {
							bad("arg-resolution", fmt.Sprintf("update must replace the operand of chain link %d of rule %s with %s", k, id, tok))
						}
					} else if res.Exit == 0 || len(changed) > 0 {
						bad("arg-resolution", "chain offset beyond the chain / unknown rule: must fail and change nothing")
					}
				case "compare":
					if id == "123456" && k <= c18ChainLen {
						if !strings.Contains(res.Stdout, tok) || !strings.Contains(res.Stdout, fmt.Sprintf("op%d ", k)) || len(changed) > 0 {
							bad("arg-resolution", fmt.Sprintf("compare must show generated %s against current op%d", tok, k))
						}
					} else if res.Exit == 0 || len(changed) > 0 {
						bad("arg-resolution", "chain offset beyond the chain / unknown rule: must fail")
					}
				case "format":
					if res.Exit != 0 || len(changed) != 1 || changed[0] != "modified:regex-assembly/"+file {
						bad("arg-resolution", "format must rewrite exactly regex-assembly/"+file)
					}
				}
			}
		}
		emit(o)
	})
	// ---- the same bytes as file argument and on standard input (every shape of the end of the input) ----
	outs4, d4 := core.Parallel(r, "stdin", in{dir}, 1, func(in in, shard, n int, emit func(out)) {
		var o out
		sb := filepath.Join(in.Dir, "stdin")
		bodies := []string{"foo\nbar", "single", "foo\nbar\n", "foo\r\nbar", "foo\r\nbar\r\n", "", "\n", "foo\n\n\n", "foo\n##!$ s", "foo\n##!> include inc", "##!> assemble\nfoo\n##!<", "##!> assemble\nfoo\n##!<\n",
			"foo\n##!<", "##!+ i\nfoo\n##!^ p", "foo\n  ", "foo\n\t", "foo\n##! c", "a|b\n(c", "foo\x00bar", "foo\nb\xc3\xa9"}
		for _, body := range bodies {
			os.RemoveAll(sb)
			core.Tree{"regex-assembly/toolchain.yaml": c01Yaml, "regex-assembly/include/inc.ra": "plaininclude\n", "regex-assembly/123456.ra": body, "rules/": ""}.Materialise(sb)
			file := core.RunCLI(r.Crs, sb, "", nil, "-d", sb, "regex", "generate", "123456")
			std := core.RunCLI(r.Crs, sb, body, nil, "-d", sb, "regex", "generate", "-")
			o.Runs += 2
			o.Accepted++
			if file.Exit != std.Exit || file.Stdout != std.Stdout {
				o.Bad = append(o.Bad, c18Res{"stdin", "generate", "-", fmt.Sprintf("%q", body), "stdin-equals-file", fmt.Sprintf("file argument: exit %d %q; the same bytes on standard input: exit %d %q", file.Exit, file.Stdout, std.Exit, std.Stdout), std.Exit, std.Stdout, nil})
			}
		}
		emit(o)
	})
	// ---- root resolution ----
	rootTree := func() core.Tree {
		t := core.Tree{
			"outer/regex-assembly/123456.ra": "outerroot\n", "outer/regex-assembly/include/": "", "outer/rules/": "",
			// the inner root has no configuration file, the outer one has: everything, the configuration too, comes from the nearest root
			"outer/regex-assembly/toolchain.yaml": "patterns:\n  anti_evasion:\n    unix: 'Q?'\n    windows: 'Q?'\n",
			"outer/a/b/regex-assembly/123456.ra":  "##!> cmdline unix\ninnerroot\n##!<\n", "outer/a/b/c/d/e/": "", "outer/a/x/y/z/": "", "outer/p/q/r/s/": "",
			"outer/rules/notes.conf": "x\n", "outer/a/b/c/d/file.txt": "x\n", "sibling/m/file.txt": "x\n",
			"sibling/m/n/": "", "outer/a/b/regex-assembly/include/deep/": "", "outer/with blank/sub dir/": "", "outer/a/b/ünï/": "",
			// a root whose regex-assembly is a symbolic link to a directory elsewhere, a root reached through a linked
			// directory, and a dangling link called regex-assembly (contains nothing: not a root)
			"outer/shared-assembly/123456.ra": "linkedroot\n", "outer/linked/regex-assembly": core.LinkPrefix + "../shared-assembly", "outer/linked/sub/deep/": "",
			"outer/alias": core.LinkPrefix + "a/b", "outer/p/q/regex-assembly": core.LinkPrefix + "nowhere",
			"standalone/regex-assembly": core.LinkPrefix + "../outer/shared-assembly", "standalone/x/": "",
		}
		return t
	}
	starts := []string{"outer", "outer/a", "outer/a/b", "outer/a/b/c", "outer/a/b/c/d", "outer/a/b/c/d/e", "outer/a/x", "outer/a/x/y/z", "outer/p", "outer/p/q/r/s",
		"outer/regex-assembly", "outer/regex-assembly/include", "outer/rules", "outer/with blank/sub dir", "outer/a/b/ünï", "outer/a/b/regex-assembly/include/deep", "sibling", "sibling/m/n", ".",
		"outer/linked", "outer/linked/sub", "outer/linked/sub/deep", "outer/alias", "outer/alias/c/d", "outer/p/q", "outer/p/q/r", "standalone", "standalone/x",
		// -d names a file (what an editor task passes): the search starts at the file
		"outer/regex-assembly/123456.ra", "outer/a/b/regex-assembly/123456.ra", "outer/rules/notes.conf", "outer/a/b/c/d/file.txt", "sibling/m/file.txt"}
	nearest := func(sb, start string) string {
		cur := filepath.Clean(filepath.Join(sb, start))
		for {
			if st, err := os.Stat(filepath.Join(cur, "regex-assembly")); err == nil && st.IsDir() {
				return cur
			}
			if cur == "/" || cur == sb {
				return ""
			}
			cur = filepath.Dir(cur)
		}
	}
	outs2, d2 := core.Parallel(r, "roots", in{dir}, r.Workers, func(in in, shard, n int, emit func(out)) {
		var o out
		sb := filepath.Join(in.Dir, fmt.Sprint("r", shard))
		os.RemoveAll(sb)
		rootTree().Materialise(sb)
		idx := 0
		for _, start := range starts {
			for _, mode := range []string{"-d abs", "-d rel", "cwd", "-d . from start", "-d abs/"} {
				if idx++; idx%n != shard {
					continue
				}
				if st, err := os.Stat(filepath.Join(sb, start)); err == nil && !st.IsDir() && (mode == "cwd" || mode == "-d . from start" || mode == "-d abs/") {
					continue // a file cannot be the working directory
				}
				var args []string
				cwd := sb
				switch mode {
				case "-d abs":
					args = []string{"-d", filepath.Join(sb, start)}
				case "-d abs/":
					args = []string{"-d", filepath.Join(sb, start) + "/"}
				case "-d rel":
					args = []string{"-d", start}
				case "cwd":
					cwd = filepath.Join(sb, start)
				default:
					cwd = filepath.Join(sb, start)
					args = []string{"-d", "."}
				}
				res := core.RunCLI(r.Crs, cwd, "", nil, append(args, "regex", "generate", "123456")...)
				o.Runs++
				want := nearest(sb, start)
				if mode == "cwd" {
					// without -d the working directory itself is the root
					want = ""
					if st, err := os.Stat(filepath.Join(sb, start, "regex-assembly")); err == nil && st.IsDir() {
						want = filepath.Join(sb, start)
					}
				}
				wantOut := ""
				if want != "" {
					b, _ := os.ReadFile(filepath.Join(want, "regex-assembly/123456.ra"))
					for _, l := range strings.Split(string(b), "\n") {
						if l != "" && !strings.HasPrefix(l, "##!") {
							wantOut = l
						}
					}
				}
				if want == "" {
					o.Rejected++
					if res.Exit == 0 || res.Stdout != "" {
						o.Bad = append(o.Bad, c18Res{"roots", "generate", "123456", start + " (" + mode + ")", "root-nearest-ancestor", "no root above the start directory: must fail", res.Exit, res.Stdout, nil})
					}
				} else {
					o.Accepted++
					if res.Exit != 0 || res.Stdout != wantOut {
						o.Bad = append(o.Bad, c18Res{"roots", "generate", "123456", start + " (" + mode + ")", "root-nearest-ancestor", "expected the root " + strings.TrimPrefix(want, sb+"/") + " (" + wantOut + ")", res.Exit, res.Stdout, nil})
					}
				}
			}
		}
		emit(o)
	})
	deaths = append(deaths, d2...)
	// ---- --all uses the same grammar: which files are processed, with which offset ----
	outs3, d3 := core.Parallel(r, "all", in{dir}, 1, func(in in, shard, n int, emit func(out)) {
		var o out
		sb := filepath.Join(in.Dir, "all")
		t := core.Tree{"regex-assembly/toolchain.yaml": c01Yaml, "regex-assembly/include/helper.ra": "notarule\n"}
		conf := rulesFile(ruleSpec{ID: "123456", Regex: "op0", Chain: []string{"op1", "op2", "op3"}}, ruleSpec{ID: "123457", Regex: "other"})
		t["rules/REQUEST-123-TEST.conf"] = conf
		want := conf
		for _, f := range []string{"123456.ra", "123456-chain1.ra", "123456-chain2.ra", "123456-chain3.ra", "123457.ra"} {
			t["regex-assembly/"+f] = token(f) + "\n"
		}
		// names outside the grammar must be ignored by --all
		for _, f := range []string{"12345.ra", "1234567.ra", "123456.txt", "123456-chain1.ra.bak", "x123456.ra", "123456-chain1x.ra", "notes.ra", "123456.ra.ra", "123456-chain1.ra.ra", "123457.ra.RA"} {
			t["regex-assembly/"+f] = "ignored" + token(f) + "\n"
		}
		t.Materialise(sb)
		want = strings.Replace(want, `"@rx op0"`, `"@rx `+token("123456.ra")+`"`, 1)
		for k := 1; k <= c18ChainLen; k++ {
			want = strings.Replace(want, fmt.Sprintf(`"@rx op%d"`, k), `"@rx `+token(fmt.Sprintf("123456-chain%d.ra", k))+`"`, 1)
		}
		want = strings.Replace(want, `"@rx other"`, `"@rx `+token("123457.ra")+`"`, 1)
		cmp := core.RunCLI(r.Crs, sb, "", nil, "-d", sb, "regex", "compare", "--all")
		res := core.RunCLI(r.Crs, sb, "", nil, "-d", sb, "regex", "update", "--all")
		got, _ := os.ReadFile(filepath.Join(sb, "rules/REQUEST-123-TEST.conf"))
		o.Runs += 2
		o.Accepted += 2
		if res.Exit != 0 || string(got) != want {
			o.Bad = append(o.Bad, c18Res{"all", "update --all", "", "", "all-uses-same-grammar", "update --all must update exactly the operands named by the file names", res.Exit, string(got), nil})
		}
		if strings.Count(cmp.Stdout, "has changed") != 5 || strings.Contains(cmp.Stdout, "ignored") {
			o.Bad = append(o.Bad, c18Res{"all", "compare --all", "", "", "all-uses-same-grammar", "compare --all must compare exactly the five rule files", cmp.Exit, tailStr(cmp.Stdout, 300), nil})
		}
		// a chain offset above 255 in a file name must make --all fail
		os.WriteFile(filepath.Join(sb, "regex-assembly/123456-chain256.ra"), []byte("x\n"), 0o644)
		before := core.Snapshot(sb)
		res = core.RunCLI(r.Crs, sb, "", nil, "-d", sb, "regex", "update", "--all")
		o.Runs++
		o.Rejected++
		if ch := before.Diff(core.Snapshot(sb), false); res.Exit == 0 || len(ch) > 0 {
			o.Bad = append(o.Bad, c18Res{"all", "update --all", "123456-chain256.ra", "", "all-uses-same-grammar", "file name with chain offset 256 must make --all fail without writing", res.Exit, "", ch})
		}
		emit(o)
	})
	deaths = append(deaths, d3...)
	deaths = append(deaths, d4...)
	if r.IsWorker() {
		return
	}
	for _, d := range deaths {
		r.HarnessError("worker %s/%d %s on %q: %s", d.Stage, d.Shard, d.Kind, d.Case, tailStr(d.Log, 300))
	}
	var tot out
	for _, o := range append(append(append(outs, outs2...), outs3...), outs4...) {
		tot.Runs += o.Runs
		tot.Accepted += o.Accepted
		tot.Rejected += o.Rejected
		tot.Bad = append(tot.Bad, o.Bad...)
	}
	sort.Slice(tot.Bad, func(i, j int) bool {
		return fmt.Sprint(tot.Bad[i].Cmd, tot.Bad[i].Arg) < fmt.Sprint(tot.Bad[j].Cmd, tot.Bad[j].Arg)
	})
	for _, b := range tot.Bad {
		key := fmt.Sprintf("%s %q %s", b.Cmd, b.Arg, b.Start)
		r.Report(core.Violation{Clause: b.Clause, Key: key,
			What:   fmt.Sprintf("`regex %s %s` %s: %s; got exit %d stdout %q changed %v", b.Cmd, b.Arg, b.Start, b.Why, b.Exit, tailStr(b.Stdout, 80), b.Changed),
			Detail: b})
	}
	r.Cov["evaluations"] = tot.Runs
	r.Cov["states"] = len(c18Args())*4 + len(starts)*5
	r.Cov["transitions"] = tot.Runs
	r.Cov["traces_validated_against_impl"] = tot.Runs
	r.Cov["accepted_cases"] = tot.Accepted
	r.Cov["rejected_cases"] = tot.Rejected
	r.Cov["distinct_nontrivial"] = tot.Accepted
	r.Cov["exhaustive"] = len(deaths) == 0
	r.Cov["bound"] = map[string]any{"digits": c18Digits, "chain_part": c18K, "extensions": c18Ext, "decorations": c18Deco, "start_dirs": len(starts), "dir_modes": 5}
	r.Cov["rule"] = "all argument strings digits x chain part x extension (x decorations for the 6-digit ones) x {generate, update, compare, format} against a tree in which every spelled file exists and contains its own name and rule 123456 has three chained links with distinct operands, so stdout / the changed line reveal file and offset; all start directories of a tree with an outer root, a nested inner root and a rootless sibling x 5 ways of passing the directory; one --all run over grammar and non-grammar file names; non-trivial = accepted cases whose resolution was observed; extensions include glued ones (xra, _ra, -ra, ra); roots include a regex-assembly that is a symbolic link, a root reached through a linked directory and a dangling link"
	r.Cov["samples"] = []any{"regex update 123456-chain01", "regex generate ' 123456'", "regex format 123456.ra.ra", "-d outer/a/b/c/d regex generate 123456"}
}
