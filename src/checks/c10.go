package checks

import (
	"fmt"
	"os"
	"path/filepath"
	"sort"
	"strings"
	"unicode"

	"github.com/coreruleset/crs-toolchain/v2/zz_verif/core"
	"github.com/coreruleset/crs-toolchain/v2/zz_verif/inproc"
)

func init() { Registry["C10"] = C10 }

// squeezed: the sequence of lines with all white space deleted, trailing empty lines dropped.
func squeezed(s string) []string {
	var out []string
	for _, l := range strings.Split(s, "\n") {
		out = append(out, strings.Map(func(r rune) rune {
			if unicode.IsSpace(r) {
				return -1
			}
			return r
		}, l))
	}
	for len(out) > 0 && out[len(out)-1] == "" {
		out = out[:len(out)-1]
	}
	return out
}

func sameLines(x, y string) bool {
	a, b := squeezed(x), squeezed(y)
	eq := func(p, q []string) bool { return strings.Join(p, "\n") == strings.Join(q, "\n") && len(p) == len(q) }
	if eq(a, b) {
		return true
	}
	h := []string{strings.ReplaceAll(raHeader1, " ", ""), strings.ReplaceAll(raHeader2, " ", "")}
	withHeader := append(append([]string{}, h...), "")
	withHeader = append(withHeader, a...)
	for len(withHeader) > 0 && withHeader[len(withHeader)-1] == "" {
		withHeader = withHeader[:len(withHeader)-1]
	}
	return eq(withHeader, b)
}

func C10(r *core.Run) {
	if !r.IsWorker() && !core.Instrumented() {
		r.HarnessError("C10 needs the map-range instrumented build (vtool-sched)")
		return
	}
	dir := ""
	if !r.IsWorker() {
		dir = core.Scratch("c10")
		defer os.RemoveAll(dir)
	}
	alphabet := append(append([]string{}, fmtLines...), fmtTrouble...)
	type in struct {
		Dir             string
		FullLen, MaxLen int
	}
	type out struct {
		Files, Ops, Changed, FormatFailed int
		Fails                             []c09Fail
	}
	spec := in{dir, r.Pick(1, 2), r.Pick(2, 3)}
	if r.Degraded() || !inproc.ShimAvailable {
		spec = in{dir, 1, 1}
	}
	outs, deaths := core.Parallel(r, "sweep", spec, r.Workers, func(in in, shard, n int, emit func(out)) {
		wd := filepath.Join(in.Dir, fmt.Sprint("w", shard))
		miniCRS().Materialise(wd)
		root := inproc.NewRoot(wd)
		path := filepath.Join(wd, "regex-assembly/123456.ra")
		var o out
		visit := func(lines []string, v fmtVariant, x string) {
			r.Inflight(x)
			o.Files++
			os.WriteFile(path, []byte(x), 0o644)
			res := root.Format(path, false)
			b, _ := os.ReadFile(path)
			y := string(b)
			o.Ops++
			if res.Kind != inproc.OK {
				o.FormatFailed++
				if y != x {
					o.Fails = append(o.Fails, c09Fail{"line-sequence-preserved", "format failed (" + res.Kind + ") but changed the file", lines, v, x, []string{y}})
				}
				return
			}
			if y != x {
				o.Changed++
			}
			if !sameLines(x, y) {
				o.Fails = append(o.Fails, c09Fail{"line-sequence-preserved", "lines differ beyond white space, added header and trailing blank lines", lines, v, x, []string{y}})
				return
			}
			gx, _, e1 := outcomesUnder(1, func() string { return root.Generate(x).String() })
			gy, _, e2 := outcomesUnder(1, func() string { return root.Generate(y).String() })
			o.Ops += e1 + e2
			sort.Strings(gx)
			sort.Strings(gy)
			norm := func(g []string) string {
				// failures are one kind of outcome: "the same failure" = fails in both
				var u []string
				for _, s := range g {
					if !strings.HasPrefix(s, "ok:") {
						s = "fail"
					}
					if len(u) == 0 || u[len(u)-1] != s {
						u = append(u, s)
					}
				}
				sort.Strings(u)
				return strings.Join(u, "\x00")
			}
			if norm(gx) != norm(gy) {
				o.Fails = append(o.Fails, c09Fail{"generate-outcomes-preserved", fmt.Sprintf("generate gives %q before and %q after format", gx, gy), lines, v, x, []string{y}})
			}
			if len(o.Fails) > 3000 {
				o.Fails = o.Fails[:3000]
			}
		}
		enumFmtFiles(alphabet, in.FullLen, in.MaxLen, shard, n, visit)
		// lines that only mean something together (flags, definitions and references, blocks, stored names), one line longer
		enumFmtFiles(fmtInteract, 0, in.MaxLen+1, shard, n, func(lines []string, v fmtVariant, x string) {
			if len(lines) == in.MaxLen+1 {
				visit(lines, v, x)
			}
		})
		// the formatted file is an include file: what its includers generate is the same before and after
		vary := filepath.Join(wd, "regex-assembly/include/vary.ra")
		includers := []string{"##!> include vary\ntail\n", "##!> cmdline unix\n##!> include vary\n##!<\n", "head\n##!> include-except vary ex\n"}
		enumFmtFiles(alphabet, 1, 2, shard, n, func(lines []string, v fmtVariant, x string) {
			r.Inflight("include file: " + x)
			o.Files++
			os.WriteFile(vary, []byte(x), 0o644)
			var before []string
			for _, inc := range includers {
				before = append(before, root.Generate(inc).String())
			}
			res := root.Format(vary, false)
			o.Ops += 1 + 2*len(includers)
			if res.Kind != inproc.OK {
				o.FormatFailed++
				return
			}
			b, _ := os.ReadFile(vary)
			for i, inc := range includers {
				after := root.Generate(inc).String()
				if okB, okA := strings.HasPrefix(before[i], "ok:"), strings.HasPrefix(after, "ok:"); okB != okA || (okB && before[i] != after) {
					o.Fails = append(o.Fails, c09Fail{"generate-outcomes-preserved", fmt.Sprintf("an includer (%q) of the file generates %q before and %q after the file is formatted", inc, before[i], after), lines, v, x, []string{string(b)}})
				}
			}
		})
		os.Remove(vary)
		emit(o)
	})
	// conformance: files of one line through the CLI (format + generate before/after)
	type confRes struct {
		X     string
		Agree bool
		Why   string
	}
	conf, d2 := core.Parallel(r, "conf", spec, r.Workers, func(in in, shard, n int, emit func(confRes)) {
		wd := filepath.Join(in.Dir, fmt.Sprint("c", shard))
		miniCRS().Materialise(wd)
		root := inproc.NewRoot(wd)
		path := filepath.Join(wd, "regex-assembly/123456.ra")
		enumFmtFiles(alphabet, 0, 1, shard, n, func(lines []string, v fmtVariant, x string) {
			os.WriteFile(path, []byte(x), 0o644)
			gi := root.Generate(x)
			gc := core.RunCLI(r.Crs, wd, "", nil, "-d", wd, "regex", "generate", "123456")
			ri := root.Format(path, false)
			a, _ := os.ReadFile(path)
			os.WriteFile(path, []byte(x), 0o644)
			rc := core.RunCLI(r.Crs, wd, "", nil, "-d", wd, "regex", "format", "123456")
			b, _ := os.ReadFile(path)
			agree := agreeCLI(gi, gc) && string(a) == string(b) && (ri.Kind == inproc.OK) == (rc.Exit == 0)
			emit(confRes{x, agree, fmt.Sprint(gi.String(), "|", cliClass(gc), "|", ri.Kind, rc.Exit)})
		})
	})
	deaths = append(deaths, d2...)
	if r.IsWorker() {
		return
	}
	for _, d := range deaths {
		r.HarnessError("worker %s/%d %s on %q: %s", d.Stage, d.Shard, d.Kind, d.Case, tailStr(d.Log, 300))
	}
	validated, nd := 0, 0
	for _, c := range conf {
		if c.Agree {
			validated++
		} else if nd++; nd <= 5 {
			r.HarnessError("in-process and CLI disagree on %q: %s", c.X, c.Why)
		}
	}
	var tot out
	for _, o := range outs {
		tot.Files += o.Files
		tot.Ops += o.Ops
		tot.Changed += o.Changed
		tot.FormatFailed += o.FormatFailed
		tot.Fails = append(tot.Fails, o.Fails...)
	}
	reportFmtFails(r, tot.Fails)
	r.Cov["evaluations"] = tot.Ops
	r.Cov["states"] = tot.Files * 2
	r.Cov["transitions"] = tot.Ops
	r.Cov["files"] = tot.Files
	r.Cov["files_changed_by_format"] = tot.Changed
	r.Cov["format_failed_loudly"] = tot.FormatFailed
	r.Cov["failing_files"] = len(tot.Fails)
	r.Cov["distinct_nontrivial"] = tot.Changed
	r.Cov["traces_validated_against_impl"] = validated
	r.Cov["exhaustive"] = len(deaths) == 0
	r.Cov["bound"] = map[string]any{"line_kinds": len(alphabet), "lines_full_variants": spec.FullLen, "lines_two_variants": spec.MaxLen, "schedule_deviations": 1}
	r.Cov["rule"] = "all files of <= n lines over the C09 line kinds plus the troublemakers (comments that look like directives, extra arguments, glued keywords, upper-case/unsupported flags, stray markers) x variants; for each x: y = format(x) by the real processFile; M2 the white-space-free line sequences agree modulo added header / dropped trailing blanks; M1 the set of generate outcomes over all map schedules with <= 1 deviation is the same for x and y; non-trivial = files that format changes"
	r.Cov["samples"] = []any{fmtFile([]string{"##! ##!> include inc", "  foo"}, fmtVariant{false, true, 0}), fmtFile([]string{"##!> cmdline unix extra", "ls", "##!<"}, fmtVariant{false, true, 1})}
	r.Assume = append(r.Assume, "'the same failure' = generate fails before and after (diagnostic text not compared)")
}
