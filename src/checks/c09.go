package checks

import (
	"fmt"
	"os"
	"path/filepath"
	"regexp"
	"sort"
	"strings"
	"syscall"

	"github.com/coreruleset/crs-toolchain/v2/zz_verif/core"
	"github.com/coreruleset/crs-toolchain/v2/zz_verif/inproc"
)

func init() { Registry["C09"] = C09 }

var directiveCanon = regexp.MustCompile(`^##!> (?:assemble|cmdline \S+|define \S+ \S+|include \S+(?: -- \S.*)?|include-except \S+ \S.*)$`)
var fpsCanon = regexp.MustCompile(`^##![+^$] \S(?:.*\S)?$`)

// layoutClause checks the canonical layout of a formatted file ("" = fine).
func layoutClause(out string) (clause, why string) {
	head := raHeader1 + "\n" + raHeader2 + "\n\n"
	if !strings.HasPrefix(out, head) {
		return "layout-header", "does not start with the two header lines and a blank line"
	}
	if !strings.HasSuffix(out, "\n") {
		return "layout-eof", "no final newline"
	}
	body := out[len(head):]
	if body != "" && (strings.HasSuffix(body, "\n\n") || body == "\n") {
		return "layout-eof", "trailing empty line"
	}
	lines := strings.Split(strings.TrimSuffix(out, "\n"), "\n")
	depth := 0
	for i, l := range lines {
		if l == "" {
			continue
		}
		content := strings.TrimLeft(l, " \t")
		indent := l[:len(l)-len(content)]
		if content == "" {
			continue // white-space only line: not demanded by the statement to be emptied... but it has no content to indent
		}
		if strings.Contains(indent, "\t") {
			return "layout-indent", fmt.Sprintf("line %d: TAB in indentation", i+1)
		}
		want := depth * 2
		isStart := strings.HasPrefix(content, "##!> assemble") || strings.HasPrefix(content, "##!> cmdline") || strings.HasPrefix(content, "##!>assemble") || strings.HasPrefix(content, "##!>cmdline")
		switch {
		case strings.HasPrefix(content, "##!<"):
			if depth > 0 {
				depth--
			}
			want = depth * 2
		case strings.HasPrefix(content, "##!+"), strings.HasPrefix(content, "##!^"), strings.HasPrefix(content, "##!$"):
			want = 0
			if m, _ := regexp.MatchString(`^##![+^$]\s*\S`, content); m && !fpsCanon.MatchString(content) {
				return "layout-keywords", fmt.Sprintf("line %d: %q is not in normalised spacing", i+1, content)
			}
		}
		if len(indent) != want {
			return "layout-indent", fmt.Sprintf("line %d %q: indentation %d, expected %d", i+1, l, len(indent), want)
		}
		if strings.HasPrefix(content, "##!>") {
			if m, _ := regexp.MatchString(`^##!>\s*(?:assemble|cmdline|define|include|include-except)(?:\s|$)`, content); m && !directiveCanon.MatchString(content) {
				// only judged when the keyword stands alone (glued text like `assemblefoo` is not this keyword)
				return "layout-keywords", fmt.Sprintf("line %d: %q is not in normalised spacing", i+1, content)
			}
		}
		if isStart {
			depth++
		}
	}
	return "", ""
}

type c09Fail struct {
	Clause string     `json:"clause"`
	Why    string     `json:"why"`
	Lines  []string   `json:"lines"`
	V      fmtVariant `json:"variant"`
	X      string     `json:"file"`
	Chain  []string   `json:"formatted_1_2_3"`
}

type c09Out struct {
	Files, Ops, Distinct, FormatFailed, CheckOK int
	Fails                                       []c09Fail
}

type fileID struct {
	ino   uint64
	mtime int64
}

func statID(p string) fileID {
	var st syscall.Stat_t
	if err := syscall.Stat(p, &st); err != nil {
		return fileID{}
	}
	return fileID{st.Ino, st.Mtim.Nano()}
}

// c09Eval explores x -> F(x) -> F2 -> F3 with a check at each stage.
func c09Eval(root *inproc.Root, path string, lines []string, v fmtVariant, x string, out *c09Out) {
	fail := func(clause, why string, chain ...string) {
		out.Fails = append(out.Fails, c09Fail{clause, why, lines, v, x, chain})
	}
	write := func(s string) {
		if err := os.WriteFile(path, []byte(s), 0o644); err != nil {
			panic(err)
		}
	}
	read := func() string { b, _ := os.ReadFile(path); return string(b) }
	check := func(content string) (ok bool) {
		write(content)
		before := statID(path)
		res := root.Format(path, true)
		out.Ops++
		if after := statID(path); read() != content || after != before {
			fail("check-never-writes", "format --check modified the file (content, inode or mtime)")
		}
		return res.Kind == inproc.OK
	}
	format := func(content string) (string, bool) {
		write(content)
		res := root.Format(path, false)
		out.Ops++
		return read(), res.Kind == inproc.OK
	}
	hasI := false
	hasUpper := false
	for _, l := range lines {
		t := strings.TrimSpace(l)
		if strings.HasPrefix(t, "##!+") && strings.Contains(t, "i") {
			hasI = true
		}
		if strings.Contains(l, "[A-Z]") {
			hasUpper = true
		}
	}
	kx := check(x)
	y1, ok1 := format(x)
	if !ok1 {
		out.FormatFailed++
		if y1 != x {
			fail("idempotent", "format failed but changed the file")
		}
		if kx {
			fail("check-iff-fixpoint", "format fails on a file that --check accepts")
		}
		return
	}
	if kx && y1 != x {
		fail("check-iff-fixpoint", "--check succeeds but format changes the file", y1)
	}
	if !kx && y1 == x && !(hasI && hasUpper) {
		fail("check-iff-fixpoint", "format leaves the file byte-identical but --check fails", y1)
	}
	if kx {
		out.CheckOK++
	}
	y2, ok2 := format(y1)
	y3, ok3 := format(y2)
	if !ok2 || !ok3 || y2 != y1 || y3 != y2 {
		fail("idempotent", "formatting a formatted file changes it", y1, y2, y3)
	}
	if k1 := check(y1); !k1 && y2 == y1 && !(hasI && hasUpper) {
		fail("check-iff-fixpoint", "--check fails on the output of format", y1)
	}
	if clause, why := layoutClause(y1); clause != "" {
		fail(clause, why, y1)
	}
	// a file that already is in the canonical layout is left alone (LF files; lines without trailing white space)
	if c, _ := layoutClause(x); c == "" && y1 != x && !v.CRLF && canonicalLines(x) {
		fail("canonical-unchanged", "the file is in the canonical layout but format changes it", y1)
	}
}

// canonicalLines: no line carries white space at its end or consists of white space only, no odd white space, and
// directive lines are in normalised spacing
func canonicalLines(x string) bool {
	for _, l := range strings.Split(strings.TrimSuffix(x, "\n"), "\n") {
		if l != strings.TrimRight(l, " \t\r\f\v\u00a0") || strings.ContainsAny(l, "\f\v\r\u00a0\ufeff") {
			return false
		}
		t := strings.TrimLeft(l, " ")
		if strings.HasPrefix(t, "##!>") && !directiveCanon.MatchString(t) && !strings.HasPrefix(t, "##!> assemble") && !strings.HasPrefix(t, "##!> cmdline ") {
			return false
		}
		if strings.HasPrefix(t, "##!") && !strings.HasPrefix(t, "##! ") && strings.Contains(t, "  ") {
			return false
		}
	}
	return true
}

func C09(r *core.Run) {
	dir := ""
	if !r.IsWorker() {
		dir = core.Scratch("c09")
		defer os.RemoveAll(dir)
	}
	type in struct {
		Dir             string
		FullLen, MaxLen int
	}
	spec := in{dir, r.Pick(2, 3), r.Pick(3, 4)}
	if r.Degraded() || !inproc.ShimAvailable {
		spec = in{dir, 1, 1}
	}
	outs, deaths := core.Parallel(r, "sweep", spec, r.Workers, func(in in, shard, n int, emit func(c09Out)) {
		wd := filepath.Join(in.Dir, fmt.Sprint("w", shard))
		miniCRS().Materialise(wd)
		root := inproc.NewRoot(wd)
		path := filepath.Join(wd, "regex-assembly/123456.ra")
		var out c09Out
		enumFmtFiles(fmtLines, in.FullLen, in.MaxLen, shard, n, func(lines []string, v fmtVariant, content string) {
			r.Inflight(content)
			out.Files++
			c09Eval(root, path, lines, v, content, &out)
			if len(out.Fails) > 3000 {
				out.Fails = out.Fails[:3000]
			}
		})
		// nesting: block starts and ends with short and long lines between them, deeper than the general alphabet goes
		// (sibling blocks inside a block, blocks after blocks)
		enumFmtFiles(fmtNesting, 0, r.Pick(8, 9), shard, n, func(lines []string, v fmtVariant, content string) {
			if len(lines) < 5 || v.Header != 1 {
				return
			}
			r.Inflight(content)
			out.Files++
			c09Eval(root, path, lines, v, content, &out)
		})
		// white-space only files
		if shard == 0 {
			for _, x := range []string{"", "\n", "\n\n", " ", " \n", "\t\n\n", "\r\n", "\r\n\r\n", "  \n  \n"} {
				out.Files++
				c09Eval(root, path, []string{"<whitespace file>"}, fmtVariant{}, x, &out)
			}
		}
		emit(out)
	})
	// conformance: the complete space of <= 2 lines through the CLI (format, then format --check)
	type confRes struct {
		X, In, Cli string
		Agree      bool
	}
	conf, d2 := core.Parallel(r, "conf", spec, r.Workers, func(in in, shard, n int, emit func(confRes)) {
		wd := filepath.Join(in.Dir, fmt.Sprint("c", shard))
		miniCRS().Materialise(wd)
		root := inproc.NewRoot(wd)
		path := filepath.Join(wd, "regex-assembly/123456.ra")
		enumFmtFiles(fmtLines, 1, 2, shard, n, func(lines []string, v fmtVariant, content string) {
			os.WriteFile(path, []byte(content), 0o644)
			ri := root.Format(path, false)
			a, _ := os.ReadFile(path)
			ki := root.Format(path, true)
			os.WriteFile(path, []byte(content), 0o644)
			rc := core.RunCLI(r.Crs, wd, "", nil, "-d", wd, "regex", "format", "123456")
			b, _ := os.ReadFile(path)
			kc := core.RunCLI(r.Crs, wd, "", nil, "-d", wd, "regex", "format", "--check", "123456")
			agree := string(a) == string(b) && (ri.Kind == inproc.OK) == (rc.Exit == 0) && (ki.Kind == inproc.OK) == (kc.Exit == 0)
			emit(confRes{content, fmt.Sprint(ri.Kind, ki.Kind, string(a)), fmt.Sprint(rc.Exit, kc.Exit, string(b)), agree})
		})
	})
	deaths = append(deaths, d2...)
	// --all: every assignment of {canonical, not canonical} to four files (three rule files, one include file):
	// `format --all --check` fails exactly when some file is not canonical and writes nothing, `format --all`
	// makes every file canonical, after which the check passes and a second run changes nothing
	type allRes struct {
		Runs int
		Bad  []string
	}
	alls, d3 := core.Parallel(r, "all", spec, r.Workers, func(in in, shard, n int, emit func(allRes)) {
		wd := filepath.Join(in.Dir, fmt.Sprint("a", shard))
		head := raHeader1 + "\n" + raHeader2 + "\n\n"
		canon := []string{head + "foo\nbar\n", head + "##!> assemble\n  x\n##!<\n", head + "##!+ i\nbaz\n", head + "one\n"}
		messy := []string{"  foo\nbar\n\n\n", head + "##!>assemble\nx\n  ##!<\n", "##!+i\nbaz", head + "\tone\n"}
		tidy := []string{head + "foo\nbar\n", head + "##!> assemble\n  x\n##!<\n", head + "##!+ i\nbaz\n", head + "one\n"}
		names := []string{"regex-assembly/123456.ra", "regex-assembly/123457-chain1.ra", "regex-assembly/223456.ra", "regex-assembly/include/inc.ra"}
		var o allRes
		for mask := 0; mask < 16; mask++ {
			for _, github := range []bool{false, true} {
				if (mask*2+map[bool]int{false: 0, true: 1}[github])%n != shard {
					continue
				}
				os.RemoveAll(wd)
				t := core.Tree{"regex-assembly/toolchain.yaml": c01Yaml, "regex-assembly/exclude/": "", "rules/": ""}
				for i, nme := range names {
					if mask&(1<<i) != 0 {
						t[nme] = messy[i]
					} else {
						t[nme] = canon[i]
					}
				}
				t.Materialise(wd)
				pre := []string{"-d", wd}
				if github {
					pre = append(pre, "-o", "github")
				}
				bad := func(f string, a ...any) {
					o.Bad = append(o.Bad, fmt.Sprintf("files not canonical (bit set) %04b, github output %v: ", mask, github)+fmt.Sprintf(f, a...))
				}
				before := core.Snapshot(wd)
				chk := core.RunCLI(r.Crs, wd, "", nil, append(pre, "regex", "format", "--all", "--check")...)
				o.Runs++
				if ch := before.Diff(core.Snapshot(wd), true); len(ch) > 0 {
					bad("format --all --check changed %v", ch)
				}
				if (chk.Exit != 0) != (mask != 0) {
					bad("format --all --check exits %d", chk.Exit)
				}
				f1 := core.RunCLI(r.Crs, wd, "", nil, append(pre, "regex", "format", "--all")...)
				o.Runs++
				got := core.ReadTree(wd)
				for i, nme := range names {
					if got[nme] != tidy[i] {
						bad("after format --all (exit %d) %s is %q, canonical text is %q", f1.Exit, nme, got[nme], tidy[i])
					}
				}
				chk2 := core.RunCLI(r.Crs, wd, "", nil, append(pre, "regex", "format", "--all", "--check")...)
				f2 := core.RunCLI(r.Crs, wd, "", nil, append(pre, "regex", "format", "--all")...)
				o.Runs += 2
				if chk2.Exit != 0 || f2.Exit != 0 || treeHash(core.ReadTree(wd)) != treeHash(got) {
					bad("after format --all the check exits %d and a second format --all (exit %d) changes files: %v", chk2.Exit, f2.Exit, treeHash(core.ReadTree(wd)) != treeHash(got))
				}
			}
		}
		emit(o)
	})
	deaths = append(deaths, d3...)
	if r.IsWorker() {
		return
	}
	allRuns := 0
	seenAll := map[string]bool{}
	for _, a := range alls {
		allRuns += a.Runs
		for _, b := range a.Bad {
			_, msg, _ := strings.Cut(b, ": ")
			k := strings.Join(strings.Fields(msg)[:3], " ")
			if seenAll[k] {
				continue
			}
			seenAll[k] = true
			r.Report(core.Violation{Clause: "check-iff-fixpoint", Key: b, What: "format --all: " + b})
		}
	}
	for _, d := range deaths {
		r.HarnessError("worker %s/%d %s on %q: %s", d.Stage, d.Shard, d.Kind, d.Case, tailStr(d.Log, 300))
	}
	validated := 0
	nd := 0
	for _, c := range conf {
		if c.Agree {
			validated++
		} else if nd++; nd <= 5 {
			r.HarnessError("in-process and CLI disagree on %q: %s vs %s", c.X, c.In, c.Cli)
		}
	}
	var tot c09Out
	for _, o := range outs {
		tot.Files += o.Files
		tot.Ops += o.Ops
		tot.FormatFailed += o.FormatFailed
		tot.CheckOK += o.CheckOK
		tot.Fails = append(tot.Fails, o.Fails...)
	}
	reportFmtFails(r, tot.Fails)
	r.Cov["evaluations"] = tot.Ops + allRuns
	r.Cov["all_runs_cli"] = allRuns
	r.Cov["states"] = tot.Files * 4
	r.Cov["transitions"] = tot.Ops
	r.Cov["files"] = tot.Files
	r.Cov["format_failed_loudly"] = tot.FormatFailed
	r.Cov["files_accepted_by_check"] = tot.CheckOK
	r.Cov["failing_files"] = len(tot.Fails)
	r.Cov["distinct_nontrivial"] = tot.Files - tot.CheckOK
	r.Cov["traces_validated_against_impl"] = validated
	r.Cov["exhaustive"] = len(deaths) == 0
	r.Cov["bound"] = map[string]any{"line_kinds": len(fmtLines), "lines_full_variants": spec.FullLen, "lines_two_variants": spec.MaxLen, "variants": "LF/CRLF x final newline yes/no x header absent/present/without blank line/below an empty line/below a line of blanks"}
	r.Cov["rule"] = "all files of <= n lines over the line-kind alphabet x variants (+ empty and white-space only files), each explored as a state machine x -> F(x) -> F(F(x)) -> F3(x) with --check at x and F(x) on the real processFile (in-process), states = file contents visited, transitions = format / check operations; non-trivial = files that --check does not accept as they are"
	r.Cov["samples"] = []any{fmtFile([]string{"##!>assemble", "\tbar", "  ##!<"}, fmtVariant{true, false, 2}), fmtFile([]string{"##!+   s  ", "", "   "}, fmtVariant{false, true, 0})}
	r.Assume = append(r.Assume, "layout clauses are evaluated only when format exits 0; trimming inside entries is not demanded; the implication 'fixpoint => --check succeeds' is not evaluated for files with an i flag and an upper-case class (the additional lint)")
}

// reportFmtFails reports the smallest failing file per (clause, set of line kinds involved).
func reportFmtFails(r *core.Run, fails []c09Fail) {
	sort.SliceStable(fails, func(i, j int) bool {
		a, b := fails[i], fails[j]
		if len(a.Lines) != len(b.Lines) {
			return len(a.Lines) < len(b.Lines)
		}
		if va, vb := fmt.Sprint(a.V), fmt.Sprint(b.V); va != vb {
			return variantRank(a.V) < variantRank(b.V)
		}
		return strings.Join(a.Lines, "\n") < strings.Join(b.Lines, "\n")
	})
	seen := map[string]bool{}
	var reported [][]string
	for _, f := range fails {
		k := f.Clause + "\x00" + strings.Join(f.Lines, "\n")
		if seen[k] {
			continue
		}
		seen[k] = true
		// skip files that contain (as a subsequence of lines) an already reported smaller file of the same clause
		sub := false
		for _, rep := range reported {
			if rep[0] == f.Clause && isSubseq(rep[1:], f.Lines) {
				sub = true
				break
			}
		}
		if sub {
			continue
		}
		reported = append(reported, append([]string{f.Clause}, f.Lines...))
		key := fmt.Sprintf("%q %+v", f.X, f.V)
		r.Report(core.Violation{Clause: f.Clause, Key: key, What: fmt.Sprintf("file %q: %s", f.X, f.Why), Detail: f,
			Repro: []string{fmt.Sprintf("printf %%s %s > regex-assembly/123456.ra; crs-toolchain regex format 123456; crs-toolchain regex format --check 123456", core.ShellQuote(f.X))}})
	}
}

func variantRank(v fmtVariant) int {
	n := v.Header * 4
	if v.CRLF {
		n += 2
	}
	if !v.FinalNL {
		n++
	}
	return n
}
