package checks

import (
	"fmt"
	"os"
	"path/filepath"
	"regexp"
	"regexp/syntax"
	"strings"

	"github.com/coreruleset/crs-toolchain/v2/zz_verif/core"
	"github.com/coreruleset/crs-toolchain/v2/zz_verif/inproc"
)

func init() { Registry["C02"] = C02 }

var c02Tokens = append(append([]string{}, entryTokens...), entryTokensC02...)

var leadingFlags = regexp.MustCompile(`^\(\?([a-zA-Z-]+)\)`)

// pasteClause returns the first clause of C02 that the output text violates ("" = fine).
func pasteClause(out string) (clause, why string) {
	if out == "" {
		return "", ""
	}
	for i := 0; i < len(out); i++ {
		if out[i] == '\n' || out[i] == '\r' {
			return "one-line-printable", fmt.Sprintf("line break at byte %d", i)
		}
		if out[i] < 0x20 || out[i] > 0x7e {
			return "one-line-printable", fmt.Sprintf("byte 0x%02x at %d", out[i], i)
		}
	}
	body := out
	if m := leadingFlags.FindStringSubmatch(out); m != nil {
		fl := m[1]
		for i := 0; i < len(fl); i++ {
			if fl[i] != 'i' && fl[i] != 's' {
				return "flags-prefix-only-sorted", "flag letter " + string(fl[i])
			}
			if i > 0 && fl[i] <= fl[i-1] {
				return "flags-prefix-only-sorted", "flags not sorted / repeated: " + fl
			}
		}
		body = out[len(m[0]):]
	}
	// token scan
	inClass := false
	for i := 0; i < len(body); {
		c := body[i]
		if c == '\\' {
			if i+1 >= len(body) {
				return "parses-re2", "trailing backslash"
			}
			n := body[i+1]
			if n == '\\' {
				return "no-double-backslash", fmt.Sprintf("literal backslash written as \\\\ at %d", i)
			}
			if n == 's' {
				if !strings.HasPrefix(body[i+2:], `\x0b`) {
					return "ws-class-has-vt", fmt.Sprintf("\\s without \\x0b at %d", i)
				}
			}
			if inClass && strings.HasPrefix(body[i:], `\t\n\f\r `) {
				return "ws-class-has-vt", fmt.Sprintf("Perl white-space class written without the vertical tab at %d", i)
			}
			i += 2
			continue
		}
		if c == '"' {
			return "quote-escaped", fmt.Sprintf("bare double quote at %d", i)
		}
		if c == '[' && !inClass {
			inClass = true
		} else if c == ']' && inClass {
			inClass = false
		} else if c == '(' && !inClass && strings.HasPrefix(body[i:], "(?") {
			j := i + 2
			for j < len(body) && (body[j] >= 'a' && body[j] <= 'z' || body[j] >= 'A' && body[j] <= 'Z' || body[j] == '-') {
				j++
			}
			if j > i+2 && j < len(body) && (body[j] == ')' || body[j] == ':') {
				return "no-inline-flag-group", fmt.Sprintf("flag group %q at %d", body[i:j+1], i)
			}
		}
		i++
	}
	if _, err := syntax.Parse(out, syntax.Perl); err != nil {
		return "parses-re2", err.Error()
	}
	return "", ""
}

func c02Eval(root *inproc.Root, p Prog, st *pcStats) *pcFail {
	text := p.Text()
	o := root.Generate(text)
	if o.Kind != inproc.OK {
		if st != nil {
			st.Outside++ // not a compiling program: outside C02's quantifier
		}
		return nil
	}
	if st != nil {
		st.Programs++
		if o.Out != strings.TrimSuffix(text, "\n") {
			st.Nontrivial++
		}
	}
	if clause, why := pasteClause(o.Out); clause != "" {
		return &pcFail{P: p, Clause: clause, Out: o.Out, Ref: why}
	}
	return nil
}

const c02Rules = "# header\nSecRule ARGS \"@rx OLD\" \\\n    \"id:123456,\\\n    phase:2,\\\n    deny\"\n"

func C02(r *core.Run) {
	shrinkAllowFlags = true
	spec := sweepSpec{Tokens: c02Tokens, One: r.Pick(3, 4), Two: 2, Three: r.Thorough(), StructLen: 0, Mixed: true, FullHdr: 2, Flags: true, HdrOnly: true, PreSuf: true, RawHalves: true}
	if r.Degraded() {
		spec = sweepSpec{Tokens: c02Tokens, One: 2, Two: 1, FullHdr: 1, Flags: true, HdrOnly: true}
	}
	pc := progCheck{Name: "C02", Spec: spec, Tree: c01Tree(), Eval: c02Eval,
		ConfSpec: sweepSpec{Tokens: c02Tokens, One: 2, FullHdr: 0, Flags: true, HdrOnly: true}}
	res, cleanup := pc.run(r)
	defer cleanup()
	if r.Abandon() {
		return
	}
	// second observation point: the operand written by `regex update` is the generated text, byte for byte
	type rtRes struct {
		Text, Out, Got string
		OK, Skipped    bool
	}
	rt, deaths := core.Parallel(r, "roundtrip", pcIn{Spec: sweepSpec{Tokens: c02Tokens, One: 2, FullHdr: 1, Flags: true}}, r.Workers, func(in pcIn, shard, n int, emit func(rtRes)) {
		d := core.Scratch("c02rt")
		defer os.RemoveAll(d)
		in.Spec.programs(shard, n, func(_ string, p Prog) {
			t := p.Text()
			os.RemoveAll(d)
			tree := c01Tree()
			tree["regex-assembly/123456.ra"] = t
			tree["rules/REQUEST-123-TEST.conf"] = c02Rules
			tree.Materialise(d)
			gen := core.RunCLI(r.Crs, d, "", nil, "-d", d, "regex", "generate", "123456")
			if gen.Exit != 0 {
				emit(rtRes{Text: t, Skipped: true, OK: true})
				return
			}
			up := core.RunCLI(r.Crs, d, "", nil, "-d", d, "regex", "update", "123456")
			b, _ := os.ReadFile(filepath.Join(d, "rules/REQUEST-123-TEST.conf"))
			want := strings.Replace(c02Rules, "OLD", gen.Stdout, 1)
			emit(rtRes{Text: t, Out: gen.Stdout, Got: string(b), OK: up.Exit == 0 && string(b) == want})
		})
	})
	// programs that make the tool talk (warnings, debug and trace records), at every log level and output mode: what
	// `generate` prints on standard output is the regex and nothing else
	type talkRes struct {
		Text, Args, Stdout, Want string
		Exit                     int
	}
	talk, d2 := core.Parallel(r, "talk", pcIn{}, r.Workers, func(in pcIn, shard, n int, emit func(talkRes)) {
		d := core.Scratch("c02talk")
		defer os.RemoveAll(d)
		tree := c01Tree()
		tree["regex-assembly/include/withdefs.ra"] = "##!> define unused x\n##!> define used [a-c]\n{{used}}1\n{{other}}2\n"
		tree.Materialise(d)
		root := inproc.NewRoot(d)
		texts := []string{
			"##!> define a b\n{{foo}}x{{baz}}\n", "##!> define a b\n{{a}}\n{{a\n", "a\"\n##!=< n\nb\n##!=< n\n##!=> n\n", "x\n##!=< n\n##!=< m\n##!=> n\n##!=> m\n",
			"##!> include withdefs\n{{used}}\n", "##!> include-except withdefs incd -- 1 2\n", "##!+ i\n[A-Z]x\n", "##!> cmdline unix\n##!<\nfoo\n", "##!> assemble\n##!<\n\"\n",
			"##! only a comment\n", "a|b|c\n(?i:d)\n", "\\\\\"\n", "##!^ \"\n##!$ \\\\\nx\n",
		}
		idx := 0
		for _, text := range texts {
			o := root.Generate(text)
			if o.Kind != inproc.OK {
				continue
			}
			for _, pre := range [][]string{nil, {"-l", "trace"}, {"--log-level", "debug"}, {"--log-level=info"}, {"-l", "warn"}, {"-l", "error"}, {"-o", "github"}, {"-o", "github", "-l", "trace"}} {
				if idx++; idx%n != shard {
					continue
				}
				for _, stdin := range []bool{true, false} {
					args := append(append([]string{"-d", d}, pre...), "regex", "generate")
					input := text
					if stdin {
						args = append(args, "-")
					} else {
						os.WriteFile(filepath.Join(d, "regex-assembly", fmt.Sprintf("1%05d.ra", shard)), []byte(text), 0o644)
						args, input = append(args, fmt.Sprintf("1%05d", shard)), ""
					}
					res := core.RunCLI(r.Crs, d, input, nil, args...)
					emit(talkRes{text, strings.Join(args[2:], " "), res.Stdout, o.Out, res.Exit})
				}
			}
		}
	})
	deaths = append(deaths, d2...)
	if r.IsWorker() {
		return
	}
	talkRuns := 0
	seenTalk := map[string]bool{}
	for _, t := range talk {
		talkRuns++
		if (t.Exit != 0 || t.Stdout != t.Want) && !seenTalk[t.Text] {
			seenTalk[t.Text] = true
			r.Report(core.Violation{Clause: "one-line-printable", Key: "stdout of " + t.Args + " on " + t.Text,
				What: fmt.Sprintf("program %q: `%s` exits %d and prints %q on standard output, the regex is %q", t.Text, t.Args, t.Exit, tailStr(t.Stdout, 200), t.Want), Detail: t})
		}
	}
	r.Cov["talkative_program_runs_cli"] = talkRuns
	for _, d := range deaths {
		r.HarnessError("worker %s/%d %s on %q", d.Stage, d.Shard, d.Kind, d.Case)
	}
	rtCount := 0
	for _, x := range rt {
		if x.Skipped {
			continue
		}
		rtCount++
		if !x.OK {
			r.Report(core.Violation{Clause: "update-roundtrip-bytes", Key: x.Text,
				What:   fmt.Sprintf("program %q generates %q but `regex update` stores a different operand", x.Text, x.Out),
				Detail: x})
		}
	}
	for _, m := range res.Mins {
		r.Report(core.Violation{Clause: m.Clause, Key: m.Key,
			What:   fmt.Sprintf("program %q generates %q: %s", m.Key, m.Min.Out, m.Min.Ref),
			Detail: map[string]any{"min": m.Min, "programs_shrinking_to_this": m.Count},
			Repro:  reproGenerate(m.Key)})
	}
	r.Cov["states"] = res.Stats.Programs
	r.Cov["transitions"] = res.Stats.Programs
	r.Cov["update_roundtrips"] = rtCount
	r.Cov["traces_validated_against_impl"] = res.Validated + rtCount
	r.Cov["rule"] = "program strata A and C of C01 plus stratum H (programs whose body assembles to nothing: every entry as prefix and/or suffix line, alone or beside an empty block) over the token alphabet extended by raw TAB, 0x01, DEL, \\x22, \\Q\"\\E, \\x{2019}; every compiling program's output is lexed against the pasting clauses; states = compiling programs; non-trivial = output text differs from the program text; lower bound (entries <= 2 tokens) additionally written with `regex update` and read back; stratum U (entries of <= 2 tokens and pairs of single tokens over the upper-case escape classes \\S \\D \\W and their neighbours, under every flag setting)"
	r.Cov["samples"] = []any{
		Prog{Flags: "is", Lines: [][]string{{`\\`, `"`}}}.Text(),
		Prog{Lines: [][]string{{"[", `\s`, "!-~", "]"}}}.Text(),
		Prog{Prefix: "x", Suffix: "y", Lines: [][]string{{"\x01", "|", `\Q"\E`}}}.Text(),
	}
	r.Assume = append(r.Assume, "clause 'control characters only as hex escapes' is read as: no raw byte outside 0x20..0x7e (the engine's own \\t \\n \\f \\r escapes are accepted)")
}
