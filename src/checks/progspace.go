package checks

import (
	"regexp"
	"regexp/syntax"
	"strings"
)

// Prog is an assembly program in generated (structured) form, so that shrinking
// can work on lines and tokens.
type Prog struct {
	Flags  string     `json:"flags,omitempty"`
	Prefix string     `json:"prefix,omitempty"`
	Suffix string     `json:"suffix,omitempty"`
	Lines  [][]string `json:"lines"` // each line = list of tokens (directives are one token)
}

func (p Prog) Text() string {
	var sb strings.Builder
	if p.Flags != "" {
		sb.WriteString("##!+ " + p.Flags + "\n")
	}
	if p.Prefix != "" {
		sb.WriteString("##!^ " + p.Prefix + "\n")
	}
	if p.Suffix != "" {
		sb.WriteString("##!$ " + p.Suffix + "\n")
	}
	for _, l := range p.Lines {
		sb.WriteString(strings.Join(l, ""))
		sb.WriteByte('\n')
	}
	return sb.String()
}

func (p Prog) clone() Prog {
	q := p
	q.Lines = make([][]string, len(p.Lines))
	for i, l := range p.Lines {
		q.Lines[i] = append([]string(nil), l...)
	}
	return q
}

// entry token alphabet of C01/C02 (one token per rewrite rule visible in the assembler / rassemble-go)
var entryTokens = []string{
	"a", "b", "c", "ab", "|", "(", "(?:", ")", "[", "]", "a-c", "*", "+", "?", "{2}", ".", "^", "$",
	`\.`, `\\`, `\x5c`, `"`, `\"`, `\s`, `\t\n\f\r `, " ", "!-~", `\x00`, "é", `\b`,
	`\(?i:`, // literal text that looks like an engine flag group
	"A",     // a letter in the other case: entries that differ in case only are merged into a case-folding literal
	"-~",    // after the Perl white-space class: `[\t\n\f\r -~]`, the blank starts a range
	"%",     // a formatting verb for whoever prints the result with a printf-style function
}

// upperTokens: the upper-case escape classes with what they interact with (case folding under the i flag, class
// merging). A stratum of their own ("U"): every entry with one of them costs tens of milliseconds in the Go regexp
// printer, which walks all of Unicode for the negated class.
var upperTokens = []string{`\S`, `\D`, `\W`, `\s`, "a", "|", "[", "]", ".", "é", "[^a]",
	// white space that is not indentation: a form feed or a no-break space at the start of an entry belongs to it
	"\f", "\u00a0"}

// additional tokens for C02 (pasting safety)
var entryTokensC02 = []string{"\t", "\x01", "\x7f", `\x22`, `\Q"\E`, `\x{2019}`, `\x{fffd}`, `\(?-s:`, `\)`, `(?s:.)`, `(?i:a)`, "(?m)",
	// a flag group with an alternation inside another group, text with a plain dot behind it (the printer cannot hoist the flag)
	`((?s:a.|b)c.)`, `(?:a(?s:b.|c)a.|b)`}

var inlineFlag = regexp.MustCompile(`\(\?[a-zA-Z-]+[:)]`)

// validEntry: the property's well-formedness of a single entry.
func validEntry(e string) bool { return validEntryFlags(e, false) }

// validEntryFlags: allowFlags admits inline flag groups in the entry (C02 quantifies over all compiling programs).
func validEntryFlags(e string, allowFlags bool) bool {
	if e == "" || e[0] == ' ' || e[0] == '\t' || strings.TrimSpace(e) == "" {
		return false
	}
	if strings.HasPrefix(e, "##!") {
		return false
	}
	if !allowFlags && hasInlineFlag(e) {
		return false
	}
	_, err := syntax.Parse(e, syntax.Perl)
	return err == nil
}

// hasInlineFlag: an unescaped `(?flags:` / `(?flags)` outside a bracket expression.
func hasInlineFlag(e string) bool {
	inClass := false
	for i := 0; i < len(e); i++ {
		switch {
		case e[i] == '\\':
			i++
		case e[i] == '[' && !inClass:
			inClass = true
		case e[i] == ']' && inClass:
			inClass = false
		case e[i] == '(' && !inClass && inlineFlag.MatchString(e[i:]) && inlineFlag.FindStringIndex(e[i:])[0] == 0:
			return true
		}
	}
	return false
}

// enumEntries lists all valid entries of 1..max tokens (as token lists), in simplest-first order.
func enumEntries(tokens []string, max int) [][]string { return enumEntriesFlags(tokens, max, false) }

func enumEntriesFlags(tokens []string, max int, allowFlags bool) [][]string {
	var out [][]string
	enumSeq(len(tokens), max, func(_ int, seq []int) {
		toks := make([]string, len(seq))
		for i, s := range seq {
			toks[i] = tokens[s]
		}
		if validEntryFlags(strings.Join(toks, ""), allowFlags) {
			out = append(out, toks)
		}
	})
	return out
}

// structural line alphabet of stratum B
var structLines = []string{"a", "b|c", "ab", "##!=>", "##!=< x", "##!=> x", "##!> assemble", "##!<", "##!> cmdline unix"}

// structLines2: the structural alphabet plus comments, blank and indented lines, a second stored name, the other
// shell, and header lines (they apply to the whole file wherever they stand)
var structLines2 = append(append([]string{}, structLines...), "##! c", "", "  a", "##!=< x.y", "##!=> x.y", "##!> cmdline windows", "##!^ p", "##!$ s", "##!+ i",
	"##!> include incd", "##!> define d [$o]", "{{d}}b", "a~", "b@")

// wellFormedBody: balanced, names stored before use, markers only in assemble blocks,
// cmdline blocks contain only words (entries) or nested blocks.
func wellFormedBody(lines []string) bool {
	type fr struct{ cmd bool }
	stack := []fr{{}}
	stored := map[string]bool{}
	for _, l := range lines {
		top := stack[len(stack)-1]
		switch {
		case l == "##!> assemble":
			stack = append(stack, fr{})
		case strings.HasPrefix(l, "##!> cmdline"):
			stack = append(stack, fr{cmd: true})
		case l == "##!<":
			if len(stack) == 1 {
				return false
			}
			stack = stack[:len(stack)-1]
		case l == "##!=>":
			if top.cmd {
				return false
			}
		case strings.HasPrefix(l, "##!=< "):
			if top.cmd {
				return false
			}
			stored[l[6:]] = true
		case strings.HasPrefix(l, "##!=> "):
			if top.cmd || !stored[l[6:]] {
				return false
			}
		case strings.HasPrefix(l, "##!"), strings.TrimSpace(l) == "":
			// comments, header lines, blank lines: anywhere
		default:
			if top.cmd && strings.ContainsAny(l, "|()[") {
				return false // cmdline words are words
			}
		}
	}
	return len(stack) == 1
}
