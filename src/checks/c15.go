package checks

import (
	"fmt"
	"os"
	"path/filepath"
	"regexp"
	"sort"
	"strings"
	"time"

	"github.com/coreruleset/crs-toolchain/v2/zz_verif/core"
)

func init() { Registry["C15"] = C15 }

// decoys: files that no command may touch (paths relative to the sandbox; the CRS root is crs/)
var c15Decoys = []core.Tree{
	{"crs/regex-assembly/notes.txt": "notes\n", "crs/regex-assembly/notes.raw": "a\n", "crs/regex-assembly/include/notes.txt": "  notes\n", "crs/regex-assembly/include/inc.raw": "  a\n\n", "crs/regex-assembly/include/words.v2.txt": " w\n",
		"crs/regex-assembly/NOTES.RA": "  loud\n", "crs/regex-assembly/include/words.Ra": "  mixed\n", "crs/regex-assembly/exclude/LEGACY.rA": "  old\n\n", "crs/rules/REQUEST-123-TEST.CONF": setupExample, "crs/tests/regression/tests/REQUEST-123-TEST/123459.YAML": testYaml},
	{"crs/regex-assembly/123456.ra.bak": "  unformatted\n\n\n", "crs/regex-assembly/include/inc.ra~": " x\n"},
	{"crs/rules/REQUEST-222-X.conf.bak": setupExample, "crs/rules/notes.txt": "# OWASP CRS ver.3.0.0\n", "crs/x.confx": setupExample, "crs/example": setupExample,
		"crs/rules/modsecurity_conf": setupExample, "crs/httpd-vhost-conf": setupExample, "crs/setup-example": setupExample, "crs/rules/Xconf": setupExample, "crs/rules/a.conf.example.txt": setupExample},
	{"crs/tests/regression/tests/REQUEST-123-TEST/654321.bak.yaml": testYaml, "crs/tests/regression/tests/REQUEST-123-TEST/1234567.yaml": testYaml},
	{"crs/tests/regression/tests/REQUEST-123-TEST/654322.txt": testYaml, "crs/tests/regression/tests/REQUEST-123-TEST/654323.yaml.disabled": testYaml + "\n\n", "crs/tests/regression/tests/REQUEST-123-TEST/NOTES.md": "tests:\n  - test_id: 4", "crs/tests/regression/tests/REQUEST-123-TEST/123456.txt": testYaml,
		"crs/tests/regression/tests/REQUEST-123-TEST/12345.yaml": testYaml, "crs/tests/regression/654321.yaml.orig": testYaml, "crs/tests/654321.yaml": testYaml},
	{"other/regex-assembly/999999.ra": " z\n", "other/rules/REQUEST-999-O.conf": setupExample, "other/tests/regression/tests/T/999999.yaml": testYaml, "other/crs-setup.conf.example": setupExample},
	{"outer.conf": setupExample, "outer.ra": " q\n", "654321.yaml": testYaml, "x.example": setupExample},
	// names a careless "write to a temporary file, then rename" would use, next to every kind of target
	{"crs/crs-setup.conf.example.tmp": "precious\n", "crs/rules/REQUEST-123-TEST.conf.tmp": "precious\n", "crs/rules/REQUEST-123-TEST.conf.new": "precious\n", "crs/rules/REQUEST-123-TEST.conf~": "precious\n",
		"crs/regex-assembly/123456.ra.tmp": "precious\n", "crs/regex-assembly/.123456.ra.swp": "precious\n", "crs/tests/regression/tests/REQUEST-123-TEST/123456.yaml.tmp": "precious\n", "crs/tests/regression/tests/REQUEST-123-TEST/123456.yaml.new": "precious\n"},
	// a second file that the rules-file glob finds, sorting before the real one and holding the addressed rules
	{"crs/rules/AAA-123-DISABLED.conf.off": rulesFile(ruleSpec{ID: "123456", Regex: "DECOY"}, ruleSpec{ID: "123457", Regex: "DECOY2", Chain: []string{"DECOYCHAIN"}})},
	// a directory link below the root that leads out of it: what it points at is not part of the root
	{"crs/plugins-link": core.LinkPrefix + "../shared/plugins", "shared/plugins/other-plugin.conf": setupExample, "shared/plugins/other.example": setupExample, "shared/plugins/regex-assembly/777777.ra": "  x\n",
		"crs/regex-assembly/linked": core.LinkPrefix + "../../shared/plugins/regex-assembly", "shared/tests/654329.yaml": testYaml, "crs/tests/regression/tests/LINKED": core.LinkPrefix + "../../../../shared/tests"},
	// assembly-like files in the root but not below regex-assembly
	{"crs/rules/scratch.ra": "  s\n", "crs/util/notes/draft.ra": " d\n\n", "crs/123456.ra": "  top\n", "crs/tests/regression/tests/REQUEST-123-TEST/123456.ra": " t\n", "crs/regex-assembly.ra": " r\n"},
	{"crs/regex-assembly/.gitkeep": "", "crs/regex-assembly/include/.gitkeep": "", "crs/rules/.gitkeep": "", "crs/tests/regression/tests/.gitkeep": "", "crs/tests/regression/tests/REQUEST-123-TEST/.gitkeep": "", "crs/.editorconfig": "root = true\n"},
}

type c15Cmd struct {
	Name    string
	Args    []string
	Stdin   string
	Inspect bool
	Targets *regexp.Regexp // paths (relative to sandbox) the command may modify
}

var raFiles = regexp.MustCompile(`^crs/regex-assembly/(?:.*/)?[^/]*\.ra$`)
var rulesConf = regexp.MustCompile(`^crs/rules/REQUEST-(?:123-TEST|111-NEST)\.conf$`)
var testFiles = regexp.MustCompile(`^crs/tests/regression/tests/(?:.*/)?\d{6}\.ya?ml$`)
var confFiles = regexp.MustCompile(`^crs/(?:.*/)?[^/]*\.(?:conf|example)$`)

func c15Commands() []c15Cmd {
	one := func(p string) *regexp.Regexp { return regexp.MustCompile("^" + regexp.QuoteMeta(p) + "$") }
	cmds := []c15Cmd{
		{Name: "generate file", Args: []string{"regex", "generate", "123456"}, Inspect: true},
		{Name: "generate chain", Args: []string{"regex", "generate", "123457-chain1.ra"}, Inspect: true},
		{Name: "generate stdin", Args: []string{"regex", "generate", "-"}, Stdin: "a\n##!> include inc\n", Inspect: true},
		{Name: "compare", Args: []string{"regex", "compare", "123456"}, Inspect: true},
		{Name: "compare chain", Args: []string{"regex", "compare", "123457-chain1"}, Inspect: true},
		{Name: "compare --all", Args: []string{"regex", "compare", "--all"}, Inspect: true},
		{Name: "compare --all github", Args: []string{"-o", "github", "regex", "compare", "--all"}, Inspect: true},
		{Name: "compare github", Args: []string{"-o", "github", "regex", "compare", "123456"}, Inspect: true},
		{Name: "format --check", Args: []string{"regex", "format", "--check", "123456"}, Inspect: true},
		{Name: "format --check chain", Args: []string{"regex", "format", "-c", "123457-chain1"}, Inspect: true},
		{Name: "format --check include", Args: []string{"regex", "format", "-c", "inc"}, Inspect: true},
		{Name: "format --check upper-case class", Args: []string{"regex", "format", "-c", "upper"}, Inspect: true},
		{Name: "format --check unbalanced", Args: []string{"regex", "format", "-c", "unbalanced"}, Inspect: true},
		{Name: "format --all --check", Args: []string{"regex", "format", "--all", "--check"}, Inspect: true},
		{Name: "format --all --check github", Args: []string{"-o", "github", "regex", "format", "-a", "-c"}, Inspect: true},
		{Name: "renumber --check", Args: []string{"util", "renumber-tests", "--check", "123456"}, Inspect: true},
		{Name: "renumber --all --check", Args: []string{"util", "renumber-tests", "--all", "--check"}, Inspect: true},
		{Name: "renumber --all --check github", Args: []string{"-o", "github", "util", "renumber-tests", "-a", "-c"}, Inspect: true},
		// targets that do not exist: nothing may come into existence either
		{Name: "format --check missing rule", Args: []string{"regex", "format", "--check", "123460"}, Inspect: true},
		{Name: "format --check missing chain file", Args: []string{"regex", "format", "-c", "123456-chain7"}, Inspect: true},
		{Name: "format --check missing include", Args: []string{"regex", "format", "-c", "nosuchinclude"}, Inspect: true},
		{Name: "format --check path outside", Args: []string{"regex", "format", "-c", "../../../outside/newfile"}, Inspect: true},
		{Name: "format missing rule", Args: []string{"regex", "format", "123460"}, Inspect: true},
		{Name: "generate missing", Args: []string{"regex", "generate", "123460"}, Inspect: true},
		{Name: "compare missing", Args: []string{"regex", "compare", "123460"}, Inspect: true},
		{Name: "update missing", Args: []string{"regex", "update", "123460"}, Inspect: true},
		{Name: "renumber --check untidy end", Args: []string{"util", "renumber-tests", "--check", "123461"}, Inspect: true},
		{Name: "renumber --check trailing blank lines github", Args: []string{"-o", "github", "util", "renumber-tests", "-c", "123462"}, Inspect: true},
		{Name: "renumber --check missing", Args: []string{"util", "renumber-tests", "-c", "123460"}, Inspect: true},
		{Name: "renumber missing", Args: []string{"util", "renumber-tests", "123460"}, Inspect: true},
		{Name: "version", Args: []string{"version"}, Inspect: true},
		{Name: "--version", Args: []string{"--version"}, Inspect: true},
		{Name: "help", Args: []string{"regex", "--help"}, Inspect: true},
		{Name: "format", Args: []string{"regex", "format", "123456"}, Targets: one("crs/regex-assembly/123456.ra")},
		{Name: "format chain", Args: []string{"regex", "format", "123457-chain1.ra"}, Targets: one("crs/regex-assembly/123457-chain1.ra")},
		{Name: "format include", Args: []string{"regex", "format", "inc"}, Targets: one("crs/regex-assembly/include/inc.ra")},
		{Name: "format --all", Args: []string{"regex", "format", "--all"}, Targets: raFiles},
		// names with another extension are not assembly files
		{Name: "format other extension", Args: []string{"regex", "format", "notes.txt"}, Targets: raFiles},
		{Name: "format similar extension", Args: []string{"regex", "format", "inc.raw"}, Targets: raFiles},
		{Name: "format dotted name with other extension", Args: []string{"regex", "format", "words.v2.txt"}, Targets: raFiles},
		{Name: "format absolute path outside the root", Args: []string{"regex", "format", "{SB}/other/regex-assembly/999999"}, Targets: raFiles},
		{Name: "format absolute path outside the root with extension", Args: []string{"regex", "format", "{SB}/outer.ra"}, Targets: raFiles},
		{Name: "format relative path outside the root", Args: []string{"regex", "format", "../../../outer"}, Targets: raFiles},
		{Name: "format --check other extension", Args: []string{"regex", "format", "-c", "notes.txt"}, Inspect: true},
		{Name: "format upper-case class", Args: []string{"regex", "format", "upper"}, Targets: one("crs/regex-assembly/include/upper.ra")},
		{Name: "format unbalanced", Args: []string{"regex", "format", "unbalanced"}, Targets: one("crs/regex-assembly/include/unbalanced.ra")},
		{Name: "update", Args: []string{"regex", "update", "123456"}, Targets: one("crs/rules/REQUEST-123-TEST.conf")},
		{Name: "update chain", Args: []string{"regex", "update", "123457-chain1"}, Targets: one("crs/rules/REQUEST-123-TEST.conf")},
		{Name: "update --all", Args: []string{"regex", "update", "--all"}, Targets: rulesConf},
		{Name: "renumber", Args: []string{"util", "renumber-tests", "123456"}, Targets: one("crs/tests/regression/tests/REQUEST-123-TEST/123456.yaml")},
		{Name: "renumber yml", Args: []string{"util", "renumber-tests", "123457.yml"}, Targets: one("crs/tests/regression/tests/REQUEST-123-TEST/123457.yml")},
		{Name: "renumber --all", Args: []string{"util", "renumber-tests", "--all"}, Targets: testFiles},
		// arguments that resolve (by glob) to files that are not test files
		{Name: "renumber other extension", Args: []string{"util", "renumber-tests", "654322"}, Targets: testFiles},
		{Name: "renumber disabled test file", Args: []string{"util", "renumber-tests", "654323"}, Targets: testFiles},
		{Name: "renumber other name", Args: []string{"util", "renumber-tests", "NOTES"}, Targets: testFiles},
		{Name: "renumber other name with extension", Args: []string{"util", "renumber-tests", "NOTES.md"}, Targets: testFiles},
		{Name: "renumber txt beside yaml", Args: []string{"util", "renumber-tests", "123456.txt"}, Targets: testFiles},
		{Name: "update-copyright", Args: []string{"chore", "update-copyright", "-v", "4.1.0", "-y", "2031"}, Targets: confFiles},
	}
	for _, sh := range []string{"bash", "zsh", "fish", "powershell"} {
		cmds = append(cmds, c15Cmd{Name: "completion " + sh, Args: []string{"completion", sh}, Inspect: true})
	}
	return cmds
}

type c15Res struct {
	Cmd     string   `json:"cmd"`
	Args    []string `json:"args"`
	DirMode string   `json:"dir_mode"`
	Decoys  int      `json:"decoy_mask"`
	Exit    int      `json:"exit"`
	Changed []string `json:"changed"`
	Bad     []string `json:"not_allowed"`
	Stderr  string   `json:"stderr_tail,omitempty"`
}

type c15Out struct {
	Runs, Wrote int
	Exits       map[string]int
	Bad         []c15Res
	TouchedSets map[string]bool
}

func c15Sandbox(mask int) core.Tree {
	t := core.Tree{}
	for k, v := range miniCRS() {
		t["crs/"+k] = v
	}
	t["crs/regex-assembly/sub/deeper/"] = ""
	// files the linter complains about: the complaint must not turn a check into a rewrite
	t["crs/regex-assembly/include/upper.ra"] = "##!+ i\n   [Bb]lah\n\n\n"
	t["crs/regex-assembly/include/unbalanced.ra"] = "##!> assemble\n a\n"
	// test files that are numbered correctly but end untidily: a check has nothing to complain about and nothing to write
	t["crs/tests/regression/tests/REQUEST-123-TEST/123461.yaml"] = "tests:\n  - test_id: 1\n  - test_id: 2"
	t["crs/tests/regression/tests/REQUEST-123-TEST/123462.yaml"] = "tests:\n  - test_id: 1\n\n  \n\n"
	for i, d := range c15Decoys {
		if mask&(1<<i) != 0 {
			for k, v := range d {
				t[k] = v
			}
		}
	}
	return t
}

func C15(r *core.Run) {
	r.CLIOnly = true
	dir := ""
	if !r.IsWorker() {
		dir = core.Scratch("c15")
		defer os.RemoveAll(dir)
	}
	var masks []int
	if r.Thorough() {
		for m := 0; m < 1<<len(c15Decoys); m++ {
			masks = append(masks, m)
		}
	} else {
		full := 1<<len(c15Decoys) - 1
		masks = []int{0, full}
		for i := range c15Decoys {
			masks = append(masks, 1<<i, full&^(1<<i))
		}
	}
	type in struct {
		Dir   string
		Masks []int
	}
	outs, deaths := core.Parallel(r, "sweep", in{dir, masks}, r.Workers, func(in in, shard, n int, emit func(c15Out)) {
		out := c15Out{Exits: map[string]int{}, TouchedSets: map[string]bool{}}
		sb := filepath.Join(in.Dir, fmt.Sprint("w", shard))
		idx := 0
		for _, mask := range in.Masks {
			for _, cmd := range c15Commands() {
				for _, mode := range []string{"-d root", "-d subdirectory", "cwd=root", "cwd=root -d ."} {
					if idx++; idx%n != shard {
						continue
					}
					os.RemoveAll(sb)
					c15Sandbox(mask).Materialise(sb)
					// some files are read-only: looking at a file does not change its permission bits either
					for _, ro := range []string{"crs/regex-assembly/123456.ra", "crs/regex-assembly/include/inc.ra", "crs/tests/regression/tests/REQUEST-123-TEST/123461.yaml", "crs/rules/REQUEST-111-NEST.conf"} {
						os.Chmod(filepath.Join(sb, ro), 0o444)
					}
					before := core.Snapshot(sb)
					args := append([]string{}, cmd.Args...)
					for i := range args {
						args[i] = strings.ReplaceAll(args[i], "{SB}", sb)
					}
					cwd := sb
					switch mode {
					case "-d root":
						args = append([]string{"-d", filepath.Join(sb, "crs")}, args...)
					case "-d subdirectory":
						args = append([]string{"-d", filepath.Join(sb, "crs/regex-assembly/sub/deeper")}, args...)
					case "cwd=root":
						cwd = filepath.Join(sb, "crs")
					default:
						cwd = filepath.Join(sb, "crs")
						args = append([]string{"-d", "."}, args...)
					}
					r.Inflight(fmt.Sprint(mask, cmd.Name, mode))
					// HOME and TMPDIR live inside the sandbox so that writes there are seen as well
					os.MkdirAll(filepath.Join(sb, "home"), 0o755)
					env := []string{"HOME=" + filepath.Join(sb, "home"), "TMPDIR=" + filepath.Join(sb, "home"), "XDG_CACHE_HOME=" + filepath.Join(sb, "home/.cache"), "XDG_CONFIG_HOME=" + filepath.Join(sb, "home/.config")}
					for _, v := range []string{"GITHUB_OUTPUT", "GITHUB_STEP_SUMMARY", "GITHUB_ENV"} {
						p := filepath.Join(sb, "home", strings.ToLower(v))
						os.WriteFile(p, nil, 0o644)
						os.Chtimes(p, time.Unix(978307200, 0), time.Unix(978307200, 0))
						env = append(env, v+"="+p)
					}
					before = core.Snapshot(sb)
					res := core.RunCLI(r.Crs, cwd, cmd.Stdin, env, args...)
					after := core.Snapshot(sb)
					changed := before.Diff(after, true)
					out.Runs++
					out.Exits[fmt.Sprint(cmd.Name, "=", res.Exit)]++
					var bad []string
					for _, c := range changed {
						kind, p, _ := strings.Cut(c, ":")
						if cmd.Inspect || kind == "created" || kind == "deleted" || !cmd.Targets.MatchString(p) {
							bad = append(bad, c)
						}
					}
					if len(changed) > 0 {
						out.Wrote++
						out.TouchedSets[cmd.Name+": "+strings.Join(changed, ",")] = true
					}
					if len(bad) > 0 || res.TimedOut {
						out.Bad = append(out.Bad, c15Res{cmd.Name, args, mode, mask, res.Exit, changed, bad, tailStr(res.Stderr, 300)})
					}
				}
			}
		}
		emit(out)
	})
	// roots whose path contains characters that mean something to a file-name pattern, next to a directory such a
	// pattern would match: the rewriting commands given -d <odd root> must write there and nowhere else
	odd, d2 := core.Parallel(r, "oddroots", in{dir, nil}, r.Workers, func(in in, shard, n int, emit func(c15Out)) {
		out := c15Out{Exits: map[string]int{}, TouchedSets: map[string]bool{}}
		sb := filepath.Join(in.Dir, fmt.Sprint("o", shard))
		idx := 0
		for _, names := range [][2]string{{"crs[1]", "crs1"}, {"c?s", "crs"}, {"cr*", "crsx"}, {"a[b-c]d", "abd"}, {`c\rs`, "crs"}, {"{crs}", "crs"},
			// a complete tree nested below another complete tree: the nearest root is the resolved one
			{"outer/plugins/inner", "outer"}, {"outer/tests/fixture", "outer"},
			// a root that is itself called like the directory every root contains
			{"w/regex-assembly", "w"}, {"w/rules", "w"}} {
			for _, cmd := range c15Commands() {
				if cmd.Inspect || strings.Contains(cmd.Name, "missing") {
					continue
				}
				if idx++; idx%n != shard {
					continue
				}
				os.RemoveAll(sb)
				t := core.Tree{}
				for k, v := range miniCRS() {
					t[names[0]+"/"+k] = v
					t[names[1]+"/"+k] = v
				}
				t.Materialise(sb)
				before := core.Snapshot(sb)
				args := append([]string{"-d", filepath.Join(sb, names[0])}, cmd.Args...)
				r.Inflight(fmt.Sprint(names, cmd.Name))
				res := core.RunCLI(r.Crs, sb, cmd.Stdin, []string{"HOME=" + sb, "TMPDIR=" + sb}, args...)
				changed := before.Diff(core.Snapshot(sb), true)
				out.Runs++
				out.Exits[fmt.Sprint(cmd.Name, "=", res.Exit)]++
				var bad []string
				inside := 0
				for _, c := range changed {
					_, p, _ := strings.Cut(c, ":")
					if strings.HasPrefix(p, names[0]+"/") {
						inside++
					} else {
						bad = append(bad, c)
					}
				}
				if res.Exit == 0 && inside == 0 {
					bad = append(bad, "exit 0 but nothing below the addressed root "+names[0]+" changed")
				}
				if len(bad) > 0 {
					out.Bad = append(out.Bad, c15Res{cmd.Name + " (root " + names[0] + ")", args, "-d odd root", 0, res.Exit, changed, bad, tailStr(res.Stderr, 300)})
				}
			}
		}
		emit(out)
	})
	deaths = append(deaths, d2...)
	outs = append(outs, odd...)
	if r.IsWorker() {
		return
	}
	for _, d := range deaths {
		r.HarnessError("worker %s/%d %s on %q: %s", d.Stage, d.Shard, d.Kind, d.Case, tailStr(d.Log, 300))
	}
	tot := c15Out{Exits: map[string]int{}, TouchedSets: map[string]bool{}}
	for _, o := range outs {
		tot.Runs += o.Runs
		tot.Wrote += o.Wrote
		for k, v := range o.Exits {
			tot.Exits[k] += v
		}
		for k := range o.TouchedSets {
			tot.TouchedSets[k] = true
		}
		tot.Bad = append(tot.Bad, o.Bad...)
	}
	sort.Slice(tot.Bad, func(i, j int) bool {
		a, b := tot.Bad[i], tot.Bad[j]
		if a.Cmd != b.Cmd {
			return a.Cmd < b.Cmd
		}
		return popcount(a.Decoys) < popcount(b.Decoys)
	})
	seen := map[string]bool{}
	for _, b := range tot.Bad {
		// normalise the sandbox prefix away; one violation per (command, set of forbidden changes)
		key := b.Cmd + " | " + strings.Join(b.Bad, ",")
		if seen[key] {
			continue
		}
		seen[key] = true
		clause := "write-within-targets:" + b.Cmd
		if strings.HasPrefix(b.Cmd, "completion") || c15IsInspect(b.Cmd) {
			clause = "inspect-no-write:" + b.Cmd
		}
		for _, x := range b.Bad {
			if _, p, _ := strings.Cut(x, ":"); !strings.HasPrefix(p, "crs/") && !strings.HasPrefix(p, "crs") {
				clause = "nothing-outside-root:" + b.Cmd
			}
		}
		r.Report(core.Violation{Clause: clause, Key: key,
			What:   fmt.Sprintf("`%s` (%s, decoy mask %d, exit %d) changed %v", strings.Join(b.Args, " "), b.DirMode, b.Decoys, b.Exit, b.Bad),
			Detail: b})
	}
	var sets []string
	for k := range tot.TouchedSets {
		sets = append(sets, k)
	}
	sort.Strings(sets)
	r.Cov["evaluations"] = tot.Runs
	r.Cov["states"] = len(masks) * 4
	r.Cov["transitions"] = tot.Runs
	r.Cov["traces_validated_against_impl"] = tot.Runs
	r.Cov["runs_that_wrote"] = tot.Wrote
	r.Cov["distinct_nontrivial"] = len(sets)
	r.Cov["exit_statuses"] = tot.Exits
	r.Cov["exhaustive"] = len(deaths) == 0
	r.Cov["bound"] = map[string]any{"decoy_subsets": len(masks), "decoy_groups": len(c15Decoys), "commands": len(c15Commands()), "dir_modes": 4}
	r.Cov["rule"] = "every decoy subset x every command x 4 ways of naming the root, each executed with the real CLI in a fresh sandbox (root crs/, a second root beside it, files in the parent directory, HOME and TMPDIR inside the sandbox); recursive snapshot (type, mode, size, sha256, mtime, inode; mtimes preset to 2001) before/after; states = sandbox trees, transitions = command executions; non-trivial = distinct (command, set of changed paths) observed; commands include arguments that resolve to decoys (other extensions, disabled test files) and ten commands addressed at targets that do not exist; the tree holds files that make the linter complain"
	r.Cov["samples"] = core.Samples(sets, 6)
	r.Assume = append(r.Assume, "writes outside the sandbox directory (other than HOME/TMPDIR, which are redirected into it) are not observed")
}

func c15IsInspect(name string) bool {
	for _, c := range c15Commands() {
		if c.Name == name {
			return c.Inspect
		}
	}
	return false
}

func popcount(x int) int {
	n := 0
	for ; x > 0; x &= x - 1 {
		n++
	}
	return n
}
