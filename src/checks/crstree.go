package checks

import (
	"fmt"
	"strings"

	"github.com/coreruleset/crs-toolchain/v2/zz_verif/core"
)

// rulesFile renders a rules file in CRS layout. Each rule: SecRule line with "@rx <regex>" and the id on the next line.
type ruleSpec struct {
	ID     string
	Regex  string
	Chain  []string // operands of chained SecRules ("@rx x" added automatically)
	Negate bool
}

func (r ruleSpec) render() string {
	op := "@rx"
	if r.Negate {
		op = "!@rx"
	}
	var sb strings.Builder
	fmt.Fprintf(&sb, "SecRule ARGS \"%s %s\" \\\n    \"id:%s,\\\n    phase:2,\\\n    block,\\\n", op, r.Regex, r.ID)
	if len(r.Chain) == 0 {
		sb.WriteString("    t:none\"\n")
		return sb.String()
	}
	sb.WriteString("    chain\"\n")
	for i, c := range r.Chain {
		ind := strings.Repeat("    ", i+1)
		fmt.Fprintf(&sb, "%sSecRule ARGS \"@rx %s\" \\\n", ind, c)
		if i < len(r.Chain)-1 {
			fmt.Fprintf(&sb, "%s    \"t:none,\\\n%s    chain\"\n", ind, ind)
		} else {
			fmt.Fprintf(&sb, "%s    \"t:none\"\n", ind)
		}
	}
	return sb.String()
}

const crsConfHeader = "# ------------------------------------------------------------------------\n# OWASP CRS ver.4.0.0\n# Copyright (c) 2006-2020 Trustwave and contributors. All rights reserved.\n# Copyright (c) 2021-2024 CRS project. All rights reserved.\n# ------------------------------------------------------------------------\n\n"

func rulesFile(rules ...ruleSpec) string {
	var sb strings.Builder
	sb.WriteString(crsConfHeader)
	for _, r := range rules {
		sb.WriteString("# rule " + r.ID[:3] + "\n")
		sb.WriteString(r.render())
		sb.WriteString("\n")
	}
	return sb.String()
}

const testYaml = "---\nmeta:\n  author: \"x\"\nrule_id: 123456\ntests:\n  - test_id: 7\n    desc: one\n  - test_id: 9\n    desc: two\n"

const setupExample = crsConfHeader + "SecAction \\\n    \"id:900990,\\\n    phase:1,\\\n    pass,\\\n    t:none,\\\n    nolog,\\\n    tag:'OWASP_CRS',\\\n    ver:'OWASP_CRS/4.0.0',\\\n    setvar:tx.crs_setup_version=400\"\n\nSecComponentSignature \"OWASP_CRS/4.0.0\"\n"

// miniCRS is a small valid CRS tree (paths relative to the root).
func miniCRS() core.Tree {
	return core.Tree{
		"regex-assembly/toolchain.yaml":                       c01Yaml,
		"regex-assembly/123456.ra":                            "##! Please refer to the documentation at\n##! https://coreruleset.org/docs/development/regex_assembly/.\n\nfoo\nbar\n",
		"regex-assembly/123457-chain1.ra":                     "   baz\nqux\n\n",
		"regex-assembly/include/inc.ra":                       "xa\n  yb\n",
		"regex-assembly/include/a--b.ra":                      "dashes\n",
		"regex-assembly/exclude/ex.ra":                        "yb\n",
		"regex-assembly/sub/111113.ra":                        "nested\n",
		"rules/REQUEST-123-TEST.conf":                         rulesFile(ruleSpec{ID: "123456", Regex: "OLD"}, ruleSpec{ID: "123457", Regex: "keep", Chain: []string{"OLDCHAIN"}}),
		"rules/REQUEST-111-NEST.conf":                         rulesFile(ruleSpec{ID: "111113", Regex: "OLDNEST"}),
		"tests/regression/tests/REQUEST-123-TEST/123456.yaml": testYaml,
		"tests/regression/tests/REQUEST-123-TEST/123457.yml":  strings.Replace(testYaml, "123456", "123457", 1),
		"crs-setup.conf.example":                              setupExample,
	}
}
