package checks

import (
	"archive/tar"
	"archive/zip"
	"bytes"
	"compress/gzip"
	"crypto/sha256"
	"encoding/hex"
	"encoding/json"
	"fmt"
	"os"
	"path/filepath"
	"sort"
	"strings"

	"github.com/Masterminds/semver/v3"

	"github.com/coreruleset/crs-toolchain/v2/zz_verif/core"
)

func init() { Registry["C20"] = C20 }

// one release of the catalogue
type c20Rel struct {
	Version  string `json:"version"`
	Flag     string `json:"flag"`     // "", prerelease, draft
	Assets   string `json:"assets"`   // platform, other, none
	Checksum string `json:"checksum"` // matching, absent, wrong, othername
	Archive  string `json:"archive"`  // valid, corrupt
}

type c20Case struct {
	Running string   `json:"running"` // 2.0.0 | dev
	Rels    []c20Rel `json:"releases"`
	Faults  string   `json:"faults"` // CRS_VERIF_FAULTS
}

func c20Binary(r c20Rel, idx int) []byte {
	return []byte(fmt.Sprintf("#!/bin/sh\necho fake crs-toolchain %s release-index %d\n", r.Version, idx))
}

func c20Archive(bin []byte, corrupt bool) []byte {
	var buf bytes.Buffer
	gz := gzip.NewWriter(&buf)
	tw := tar.NewWriter(gz)
	tw.WriteHeader(&tar.Header{Name: "README.md", Mode: 0o644, Size: 2})
	tw.Write([]byte("hi"))
	tw.WriteHeader(&tar.Header{Name: "crs-toolchain", Mode: 0o755, Size: int64(len(bin))})
	tw.Write(bin)
	tw.Close()
	gz.Close()
	b := buf.Bytes()
	if corrupt {
		b = append([]byte{}, b[:len(b)/2]...)
		for i := 12; i < len(b); i += 3 {
			b[i] ^= 0x5a
		}
	}
	return b
}

// writeCatalogue renders releases.json and the asset files; returns per release the archive bytes.
func c20WriteCatalogue(dir string, rels []c20Rel) {
	os.MkdirAll(dir, 0o755)
	type asset struct {
		ID   int64  `json:"id"`
		Name string `json:"name"`
		Size int    `json:"size"`
		URL  string `json:"url"`
		DL   string `json:"browser_download_url"`
	}
	type release struct {
		ID         int64   `json:"id"`
		Tag        string  `json:"tag_name"`
		Name       string  `json:"name"`
		Draft      bool    `json:"draft"`
		Prerelease bool    `json:"prerelease"`
		HTML       string  `json:"html_url"`
		Published  string  `json:"published_at"`
		Body       string  `json:"body"`
		Assets     []asset `json:"assets"`
	}
	var out []release
	for i, r := range rels {
		tag := "v" + r.Version
		rel := release{ID: int64(100 + i), Tag: tag, Name: tag, Draft: r.Flag == "draft", Prerelease: r.Flag == "prerelease",
			HTML: "https://github.com/coreruleset/crs-toolchain/releases/tag/" + tag, Published: "2024-01-02T03:04:05Z", Body: "notes"}
		add := func(id int64, name string, content []byte) {
			os.WriteFile(filepath.Join(dir, fmt.Sprintf("asset-%d", id)), content, 0o644)
			rel.Assets = append(rel.Assets, asset{id, name, len(content),
				fmt.Sprintf("https://api.github.com/repos/coreruleset/crs-toolchain/releases/assets/%d", id),
				fmt.Sprintf("https://github.com/coreruleset/crs-toolchain/releases/download/%s/%d/%s", tag, id, name)})
		}
		base := int64(1000 + 30*i)
		sums := ""
		// assets that are not for this platform: another OS, another architecture, the Windows zip
		// (it carries crs-toolchain.exe), a package with this platform's name in it. All are listed
		// in the checksum file with their true digests.
		others := func() {
			for j, o := range []struct {
				name    string
				content []byte
			}{
				{fmt.Sprintf("crs-toolchain_%s_darwin_arm64.tar.gz", r.Version), c20Archive([]byte("other platform binary "+r.Version), false)},
				{fmt.Sprintf("crs-toolchain_%s_windows_amd64.zip", r.Version), c20Zip([]byte("MZ windows binary " + r.Version))},
				{fmt.Sprintf("crs-toolchain_%s_linux_arm64.tar.gz", r.Version), c20Archive([]byte("other architecture binary "+r.Version), false)},
				{fmt.Sprintf("crs-toolchain_%s_linux_amd64.deb", r.Version), []byte("!<arch>\ndebian-binary " + r.Version)},
				{fmt.Sprintf("crs-toolchain_%s_linux_386.tar.gz", r.Version), c20Archive([]byte("32-bit binary "+r.Version), false)},
				{fmt.Sprintf("crs-toolchain_%s_linux_amd64p32.tar.gz", r.Version), c20Archive([]byte("amd64p32 binary "+r.Version), false)},
			} {
				add(base+4+int64(j), o.name, o.content)
				h := sha256.Sum256(o.content)
				sums += hex.EncodeToString(h[:]) + "  " + o.name + "\n"
			}
		}
		if r.Assets == "platform" || r.Assets == "other" {
			others()
		}
		if c20HasPlatform(r) {
			name := fmt.Sprintf("crs-toolchain_%s_linux_amd64.tar.gz", r.Version)
			if r.Assets == "platform-dash" {
				// the library accepts dashes as separators as well
				name = fmt.Sprintf("crs-toolchain-%s-linux-amd64.tar.gz", r.Version)
			}
			arc := c20Archive(c20Binary(r, i), r.Archive == "corrupt")
			add(base+2, name, arc)
			h := sha256.Sum256(arc)
			switch r.Checksum {
			case "matching":
				sums += hex.EncodeToString(h[:]) + "  " + name + "\n"
			case "wrong":
				w := sha256.Sum256(append(arc, 'x'))
				sums += hex.EncodeToString(w[:]) + "  " + name + "\n"
			case "othername":
				sums += hex.EncodeToString(h[:]) + "  crs-toolchain_" + r.Version + "_linux_386.tar.gz\n"
			}
		}
		if r.Assets == "platform-first" {
			others()
		}
		if r.Checksum != "absent" && r.Assets != "none" {
			add(base+3, "crs-toolchain-checksums.txt", []byte(sums))
		}
		out = append(out, rel)
	}
	b, _ := json.Marshal(out)
	os.WriteFile(filepath.Join(dir, "releases.json"), b, 0o644)
}

// c20HasPlatform: the release carries the archive for this platform (listed after or before the other assets).
func c20HasPlatform(r c20Rel) bool {
	return r.Assets == "platform" || r.Assets == "platform-first" || r.Assets == "platform-dash"
}

func c20Zip(bin []byte) []byte {
	var buf bytes.Buffer
	zw := zip.NewWriter(&buf)
	w, _ := zw.Create("README.md")
	w.Write([]byte("hi"))
	fh := &zip.FileHeader{Name: "crs-toolchain.exe", Method: zip.Deflate}
	fh.SetMode(0o755)
	w, _ = zw.CreateHeader(fh)
	w.Write(bin)
	zw.Close()
	return buf.Bytes()
}

func c20Newer(v, running string) bool {
	a, err := semver.NewVersion(v)
	if err != nil {
		return false
	}
	if running == "dev" {
		return true
	}
	b, _ := semver.NewVersion(running)
	return a.GreaterThan(b)
}

// model: which binaries may be installed, and whether the situation is a failure that must be reported with a non-zero exit
func c20Model(c c20Case) (allowed [][]byte, mustFail bool, why string) {
	if c.Faults != "" {
		return nil, true, "an HTTP request failed"
	}
	// the release a reader would call "the latest for this platform": highest version among published releases with a platform asset
	best := -1
	for i, r := range c.Rels {
		if !c20HasPlatform(r) || r.Flag != "" {
			continue
		}
		if best < 0 || c20Newer(r.Version, c.Rels[best].Version) {
			best = i
		}
	}
	for i, r := range c.Rels {
		if c20HasPlatform(r) && r.Checksum == "matching" && r.Archive == "valid" && c20Newer(r.Version, c.Running) {
			allowed = append(allowed, c20Binary(r, i))
		}
	}
	if best < 0 {
		return allowed, true, "no release with an asset for this platform"
	}
	b := c.Rels[best]
	if !c20Newer(b.Version, c.Running) {
		return nil, false, "no newer release"
	}
	if b.Checksum != "matching" {
		return allowed, true, "checksum file " + b.Checksum
	}
	if b.Archive != "valid" {
		return allowed, true, "corrupt archive"
	}
	return allowed, false, "installable"
}

type c20Res struct {
	Case      c20Case  `json:"case"`
	Clause    string   `json:"clause"`
	Why       string   `json:"why"`
	Situation string   `json:"situation"`
	Exit      int      `json:"exit"`
	Stderr    string   `json:"stderr_tail"`
	Requests  []string `json:"requests"`
}

func c20Kinds(full bool) []c20Rel {
	var ks []c20Rel
	versions := []string{"1.9.0", "2.0.0", "2.1.0", "10.0.0"}
	flags := []string{"", "prerelease", "draft"}
	if !full {
		versions = []string{"2.0.0", "2.1.0", "10.0.0"}
		flags = []string{""}
	}
	for _, v := range versions {
		for _, f := range flags {
			for _, cs := range []string{"matching", "absent", "wrong", "othername"} {
				for _, ar := range []string{"valid", "corrupt"} {
					if !full && ar == "corrupt" && cs != "matching" {
						continue
					}
					ks = append(ks, c20Rel{v, f, "platform", cs, ar})
				}
			}
			ks = append(ks, c20Rel{v, f, "other", "matching", "valid"})
			ks = append(ks, c20Rel{v, f, "platform-first", "matching", "valid"})
			if f == "" {
				for _, cs := range []string{"matching", "absent", "wrong"} {
					ks = append(ks, c20Rel{v, f, "platform-dash", cs, "valid"})
				}
			}
			if full {
				ks = append(ks, c20Rel{v, f, "none", "absent", "valid"})
			}
		}
	}
	return ks
}

func C20(r *core.Run) {
	r.CLIOnly = true
	dir := ""
	if !r.IsWorker() {
		dir = core.Scratch("c20")
		defer os.RemoveAll(dir)
	}
	type in struct {
		Dir      string
		Thorough bool
	}
	type out struct {
		Runs, Installed, Untouched, Requests int
		Bad                                  []c20Res
		Situations                           map[string]int
	}
	cases := func(thorough bool) []c20Case {
		var cs []c20Case
		full := c20Kinds(true)
		red := c20Kinds(false)
		for _, run := range []string{"2.0.0", "dev", "2.5.0-rc.1", "10.1.0"} {
			cs = append(cs, c20Case{Running: run})
			for _, k := range full {
				cs = append(cs, c20Case{Running: run, Rels: []c20Rel{k}})
			}
			pairs := red
			if thorough {
				pairs = full
			}
			for _, a := range pairs {
				for _, b := range red {
					cs = append(cs, c20Case{Running: run, Rels: []c20Rel{a, b}})
				}
			}
			if thorough {
				for _, a := range red {
					for _, b := range red {
						for _, c := range []c20Rel{red[0], red[len(red)/2], red[len(red)-1], {"10.0.0", "", "platform", "wrong", "valid"}} {
							cs = append(cs, c20Case{Running: run, Rels: []c20Rel{a, b, c}})
						}
					}
				}
			}
		}
		// environment deviations: every request of a healthy update answered wrongly (1 deviation; thorough: 2)
		healthy := [][]c20Rel{
			{{"2.1.0", "", "platform", "matching", "valid"}},
			{{"10.0.0", "", "platform", "matching", "valid"}, {"2.1.0", "", "platform", "matching", "valid"}},
			{{"2.1.0", "", "platform", "wrong", "valid"}},
			{{"1.9.0", "", "platform", "matching", "valid"}},
		}
		kinds := []string{"404", "500", "conn", "trunc", "403rate", "403", "401", "429"}
		for _, run := range []string{"2.0.0", "dev", "2.5.0-rc.1", "10.1.0"} {
			for _, h := range healthy {
				for k := 1; k <= 4; k++ {
					for _, kind := range kinds {
						cs = append(cs, c20Case{Running: run, Rels: h, Faults: fmt.Sprintf("%d:%s", k, kind)})
						if thorough {
							for k2 := k + 1; k2 <= 4; k2++ {
								for _, kind2 := range kinds {
									cs = append(cs, c20Case{Running: run, Rels: h, Faults: fmt.Sprintf("%d:%s,%d:%s", k, kind, k2, kind2)})
								}
							}
						}
					}
				}
			}
		}
		return cs
	}
	outs, deaths := core.Parallel(r, "sweep", in{dir, r.Thorough()}, r.Workers, func(in in, shard, n int, emit func(out)) {
		o := out{Situations: map[string]int{}}
		wd := filepath.Join(in.Dir, fmt.Sprint("w", shard))
		os.MkdirAll(wd, 0o755)
		masters := map[string]string{}
		for run, bin := range map[string]string{"2.0.0": "crs-su-2.0.0", "dev": "crs-su-dev", "2.5.0-rc.1": "crs-su-2.5.0-rc.1", "10.1.0": "crs-su-10.1.0"} {
			b, err := os.ReadFile(filepath.Join(r.Build, bin))
			if err != nil {
				panic(err)
			}
			masters[run] = filepath.Join(wd, "master-"+run)
			os.WriteFile(masters[run], b, 0o755)
		}
		masterHash := map[string]string{}
		for run, p := range masters {
			b, _ := os.ReadFile(p)
			masterHash[run] = core.Hash(string(b))
		}
		for i, c := range cases(in.Thorough) {
			if i%n != shard {
				continue
			}
			r.Inflight(fmt.Sprintf("%+v", c))
			sb := filepath.Join(wd, "sb")
			os.RemoveAll(sb)
			os.MkdirAll(filepath.Join(sb, "bin"), 0o755)
			exe := filepath.Join(sb, "bin", "crs-toolchain")
			if err := os.Link(masters[c.Running], exe); err != nil {
				panic(err)
			}
			// a file an interrupted earlier update may have left behind: never a substitute for the executable
			os.WriteFile(filepath.Join(sb, "bin", ".crs-toolchain.old"), []byte("stale binary of an interrupted update\n"), 0o755)
			// every third case the tool is started through a symbolic link in another directory: the running
			// executable is the link's target, and the link stays a link
			start := exe
			viaLink := i%3 == 1
			if viaLink {
				os.MkdirAll(filepath.Join(sb, "path"), 0o755)
				start = filepath.Join(sb, "path", "crs-toolchain")
				if err := os.Symlink("../bin/crs-toolchain", start); err != nil {
					panic(err)
				}
			}
			cat := filepath.Join(sb, "catalogue")
			c20WriteCatalogue(cat, c.Rels)
			before := core.Snapshot(filepath.Join(sb, "bin"))
			extraEnv := []string{}
			switch i % 5 {
			case 2:
				extraEnv = []string{"GOARCH=arm64", "GOOS=linux"}
			case 4:
				extraEnv = []string{"GOOS=darwin", "GOARCH=arm64", "GOFLAGS=-mod=mod"}
			}
			// the output mode changes what is printed, not whether a failure is one
			selfUpdateArgs := []string{"self-update"}
			switch i % 3 {
			case 1:
				selfUpdateArgs = []string{"-o", "github", "self-update"}
			case 2:
				selfUpdateArgs = []string{"--output=github", "--log-level", "debug", "self-update"}
			}
			res := core.RunCLI(start, sb, "", append(extraEnv, "CRS_VERIF_RELEASES="+cat, "CRS_VERIF_FAULTS="+c.Faults, "HOME="+sb, "TMPDIR="+sb), selfUpdateArgs...)
			o.Runs++
			after, _ := os.ReadFile(exe)
			reqLog, _ := os.ReadFile(filepath.Join(cat, "requests.log"))
			reqs := strings.Split(strings.TrimSpace(string(reqLog)), "\n")
			if len(reqLog) == 0 {
				reqs = nil
			}
			o.Requests += len(reqs)
			// a planned fault only counts when the request it is attached to was actually issued
			eff := c
			fired := false
			for _, l := range reqs {
				if !strings.HasSuffix(l, "fault=") {
					fired = true
				}
			}
			if !fired {
				eff.Faults = ""
			}
			allowed, mustFail, situation := c20Model(eff)
			o.Situations[situation]++
			bad := func(clause, why string) {
				o.Bad = append(o.Bad, c20Res{c, clause, why, situation, res.Exit, tailStr(res.Stderr, 400), reqs})
			}
			if viaLink {
				if fi, err := os.Lstat(start); err != nil || fi.Mode()&os.ModeSymlink == 0 {
					bad("installs-only-eligible", "the tool was started through a symbolic link and the link itself was replaced")
				}
			}
			untouched := core.Hash(string(after)) == masterHash[c.Running]
			if untouched {
				o.Untouched++
				// other files in the directory of the executable must not appear either (old/new copies)
				if ch := before.Diff(core.Snapshot(filepath.Join(sb, "bin")), false); len(ch) > 0 {
					bad("untouched-on-failure", fmt.Sprintf("executable unchanged but its directory changed: %v", ch))
				}
				if mustFail && res.Exit == 0 {
					bad("failure-reported", "the update could not be performed ("+situation+") but the exit status is 0")
				}
				if !mustFail && situation == "installable" {
					bad("installs-only-eligible", "a newer, verified release for this platform is available and nothing failed, but nothing was installed (exit "+fmt.Sprint(res.Exit)+")")
				}
				if res.Exit == 0 && !strings.Contains(res.Stderr, "latest version") && !strings.Contains(res.Stderr, "Updated") {
					bad("failure-reported", "nothing installed, exit 0 and no message")
				}
			} else {
				o.Installed++
				ok := false
				for _, a := range allowed {
					ok = ok || bytes.Equal(a, after)
				}
				if !ok {
					clause := "installs-only-eligible"
					if mustFail {
						clause = "untouched-on-failure"
					}
					bad(clause, fmt.Sprintf("the executable was replaced (%d bytes: %.60q) although no eligible release carries that binary (%s)", len(after), after, situation))
				}
				if res.Exit != 0 {
					bad("failure-reported", "executable replaced but exit status non-zero")
				}
			}
			if mb, _ := os.ReadFile(masters[c.Running]); core.Hash(string(mb)) != masterHash[c.Running] {
				panic("master binary modified through the hard link")
			}
		}
		emit(o)
	})
	if r.IsWorker() {
		return
	}
	for _, d := range deaths {
		r.HarnessError("worker %s/%d %s on %q: %s", d.Stage, d.Shard, d.Kind, d.Case, tailStr(d.Log, 300))
	}
	tot := out{Situations: map[string]int{}}
	for _, o := range outs {
		tot.Runs += o.Runs
		tot.Installed += o.Installed
		tot.Untouched += o.Untouched
		tot.Requests += o.Requests
		tot.Bad = append(tot.Bad, o.Bad...)
		for k, v := range o.Situations {
			tot.Situations[k] += v
		}
	}
	sort.SliceStable(tot.Bad, func(i, j int) bool {
		a, b := tot.Bad[i], tot.Bad[j]
		if len(a.Case.Rels) != len(b.Case.Rels) {
			return len(a.Case.Rels) < len(b.Case.Rels)
		}
		return a.Case.Faults < b.Case.Faults
	})
	seen := map[string]bool{}
	for _, b := range tot.Bad {
		k := b.Clause + "|" + b.Situation + "|" + fmt.Sprint(len(b.Case.Rels)) + "|" + b.Case.Faults
		if len(b.Case.Rels) > 0 {
			k = b.Clause + "|" + b.Situation + "|" + b.Case.Rels[0].Checksum + "|" + b.Case.Rels[0].Archive + "|" + b.Case.Faults
		}
		if seen[k] {
			continue
		}
		seen[k] = true
		r.Report(core.Violation{Clause: b.Clause, Key: fmt.Sprintf("%+v", b.Case), What: fmt.Sprintf("self-update (running %s, releases %+v, faults %q): %s", b.Case.Running, b.Case.Rels, b.Case.Faults, b.Why), Detail: b})
	}
	r.Cov["evaluations"] = tot.Runs
	r.Cov["states"] = tot.Runs
	r.Cov["transitions"] = tot.Requests
	r.Cov["http_requests_served"] = tot.Requests
	r.Cov["installed"] = tot.Installed
	r.Cov["untouched"] = tot.Untouched
	r.Cov["situations"] = tot.Situations
	r.Cov["traces_validated_against_impl"] = tot.Runs
	r.Cov["distinct_nontrivial"] = tot.Installed
	r.Cov["exhaustive"] = len(deaths) == 0
	r.Cov["bound"] = map[string]any{"release_kinds": len(c20Kinds(true)), "releases_per_catalogue": r.Pick(2, 3), "fault_deviations": r.Pick(1, 2), "fault_kinds": "404, 500, connection error, truncated body, 403 rate limit answer, 403, 401, 429 at request #1..4; every third execution with -o github", "running_versions": []string{"2.0.0", "v0.0.0-dev", "v2.5.0-rc.1 (a pre-release newer than most releases of the menu)", "v10.1.0 (newer than every release, two-digit major: numeric and textual order disagree)"}}
	r.Cov["rule"] = "every catalogue of <= n releases over the release kinds (version below/equal/above/far above x published/prerelease/draft x platform asset listed after or before the others / other platforms only (other OS, other architecture, Windows zip with crs-toolchain.exe, .deb named like this platform; all with valid checksums) / none x checksum matching/absent/wrong/for another name x archive valid/corrupt) x running version, plus every placement of <= d HTTP faults over the requests of four reference catalogues; the real binary (repository code + fake transport) is copied into a sandbox and run as `self-update`; afterwards the executable must be byte-identical or the binary packed in a strictly newer, checksum-verified release for this platform with no fault injected; failures need a non-zero exit; states = executions, transitions = HTTP requests served; non-trivial = executions that installed something; other-platform assets: another OS, another architecture (arm64, 386, amd64p32), the Windows zip with an .exe inside, a .deb named like this platform, all with valid checksums; versions include two-digit components (10.0.0, running v10.1.0)"
	r.Cov["samples"] = []any{c20Case{"2.0.0", []c20Rel{{"2.1.0", "", "platform", "wrong", "valid"}}, ""}, c20Case{"dev", []c20Rel{{"10.0.0", "", "other", "matching", "valid"}, {"2.1.0", "", "platform", "matching", "valid"}}, "3:trunc"}}
	r.Assume = append(r.Assume, "the GitHub REST shape is the fake's (go-github v30 paths: release list, asset by id, browser download URL); TLS and redirects are outside the model",
		"installing a newer verified pre-release is not forbidden by the statement and is accepted")
}
