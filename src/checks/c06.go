package checks

import (
	"fmt"
	"os"
	"path/filepath"
	"sort"
	"strings"

	"github.com/coreruleset/crs-toolchain/v2/zz_verif/core"
	"github.com/coreruleset/crs-toolchain/v2/zz_verif/inproc"
	"github.com/coreruleset/crs-toolchain/v2/zz_verif/ref"
	"github.com/coreruleset/crs-toolchain/v2/zz_verif/rx"
)

func init() { Registry["C06"] = C06 }

var c06Lines = []string{"ab", "cd", "xa", "yb", "xaya", "{{d}}x", "##! xa", "", "baa", "\f", " \u00a0", "#xa"}
var c06Words = []string{"ab", "cd", "xa", "yb", "xaya", "{{d}}x", "yx", "zz", "#xa"}
var c06Pairs = [][][2]string{
	nil,
	{{"a", "b"}},
	{{"a", `""`}},
	{{"a", "b"}, {"b", "c"}},
	{{"a", "b"}, {"xa", "q"}},
	{{"ab", "z"}},
	{{"a", "b"}, {"b", "c"}, {"d", "a"}},
	{{"a", `"`}},
	{{"a", `="`}, {"b", `"x`}},
	{{"b", `"q"`}},
	// white space that does not separate arguments (only blank and TAB do) belongs to the key / the replacement
	{{"a", "\u00a0q"}},
	{{"a\u00a0", "q"}, {"b", "r\vs"}},
}

type c06Case struct {
	F     []string    `json:"include_file_lines"`
	X     [][]string  `json:"exclude_files"`
	Pairs [][2]string `json:"pairs"`
	Plain bool        `json:"plain_include"` // `##!> include F -- pairs` instead of include-except
}

func (c c06Case) files() (f string, xs []string) {
	f = strings.Join(c.F, "\n") + "\n"
	if strings.Contains(f, "{{d}}") {
		f = "##!> define d y\n" + f
	}
	if strings.Contains(f, "{{o}}") {
		// a chain of three definitions, innermost first, then outermost, then the middle one
		f = "##!> define u z\n##!> define o {{m}}x\n##!> define m {{u}}y\n" + f
	}
	for _, x := range c.X {
		xs = append(xs, strings.Join(x, "\n")+"\n")
	}
	return
}

func (c c06Case) directive() string {
	var sb strings.Builder
	if c.Plain {
		sb.WriteString("##!> include inc")
	} else {
		sb.WriteString("##!> include-except inc")
		for i := range c.X {
			fmt.Fprintf(&sb, " ex%d", i)
		}
	}
	if len(c.Pairs) > 0 {
		sb.WriteString(" --")
		for _, p := range c.Pairs {
			sb.WriteString(" " + p[0] + " " + p[1])
		}
	}
	return sb.String()
}

func (c c06Case) programA() string { return "head\n" + c.directive() + "\ntail\n" }

func permutations(n int) [][]int {
	if n == 0 {
		return [][]int{{}}
	}
	var out [][]int
	var rec func(cur []int, used []bool)
	rec = func(cur []int, used []bool) {
		if len(cur) == n {
			out = append(out, append([]int{}, cur...))
			return
		}
		for i := 0; i < n; i++ {
			if !used[i] {
				used[i] = true
				rec(append(cur, i), used)
				used[i] = false
			}
		}
	}
	rec(nil, make([]bool, n))
	return out
}

// candidates: the hand-made programs B. When several pairs match one entry the statement does
// not say which applies, so every priority order of the pairs yields an acceptable reading.
func (c c06Case) candidates() ([]string, error) {
	f, xs := c.files()
	files := ref.Files{"inc": f}
	var names []string
	for i, x := range xs {
		files[fmt.Sprint("ex", i)] = x
		names = append(names, fmt.Sprint("ex", i))
	}
	base, err := ref.Except(files, "inc", names, nil)
	if err != nil {
		return nil, err
	}
	seen := map[string]bool{}
	var out []string
	for _, perm := range permutations(len(c.Pairs)) {
		var lines []string
		for _, e := range base {
			r := e
			for _, pi := range perm {
				p := c.Pairs[pi]
				if strings.HasSuffix(e, p[0]) && !strings.HasPrefix(e, "##!") {
					n := p[1]
					if n == `""` {
						n = ""
					}
					r = strings.TrimSuffix(e, p[0]) + n
					break
				}
			}
			lines = append(lines, r)
		}
		b := "head\n" + strings.Join(lines, "\n") + "\ntail\n"
		if len(lines) == 0 {
			b = "head\ntail\n"
		}
		if !seen[b] {
			seen[b] = true
			out = append(out, b)
		}
	}
	return out, nil
}

type c06Fail struct {
	Case   c06Case     `json:"case"`
	A      string      `json:"program"`
	B      []string    `json:"hand_made_candidates"`
	OutA   []string    `json:"outcomes"`
	OutB   []string    `json:"candidate_outcomes"`
	Clause string      `json:"clause"`
	W      *rx.Witness `json:"witness,omitempty"`
	Harn   string      `json:"harness,omitempty"`
}

type c06Out struct {
	Cases, Execs, PStates, PTrans, ByteEqual, Inconclusive, Nontrivial int
	Fails                                                              []c06Fail
}

func c06Cases(maxF int, thorough bool) []c06Case {
	var fs [][]string
	enumSeq(len(c06Lines), maxF, func(_ int, seq []int) {
		l := make([]string, len(seq))
		for i, s := range seq {
			l[i] = c06Lines[s]
		}
		fs = append(fs, l)
	})
	var xsets [][][]string
	xsets = append(xsets, nil)            // no exclude file (plain include / include-except without files is not valid) -> plain include
	xsets = append(xsets, [][]string{{}}) // one empty exclude file
	for _, w := range c06Words {
		xsets = append(xsets, [][]string{{w}})
	}
	for _, w1 := range c06Words {
		for _, w2 := range c06Words {
			if thorough || w1 <= w2 {
				xsets = append(xsets, [][]string{{w1, w2}}) // one file, two words (larger than F for short F)
			}
			if w1 < w2 {
				xsets = append(xsets, [][]string{{w1}, {w2}}) // two files
			}
		}
	}
	// exclude files without entries (empty, comment only, definition only) before, between and after files with entries
	for i, w1 := range c06Words {
		xsets = append(xsets, [][]string{{}, {w1}}, [][]string{{w1}, {}}, [][]string{{"##! note", ""}, {w1}})
		w2 := c06Words[(i+3)%len(c06Words)]
		xsets = append(xsets, [][]string{{w1}, {}, {w2}}, [][]string{{"##!> define unused x"}, {w1}, {w2}})
	}
	var out []c06Case
	// include files that declare a prefix/suffix: their implicit assemble block consists of directive
	// lines (ending in `e`, `>` and `<`) that no pair may touch
	for _, f := range [][]string{{"##!^ p+", "axe"}, {"##!$ s+", "axe", "cd"}, {"##!^ p+", "##!$ s+", "cd<", "ab>"}} {
		for _, x := range [][][]string{nil, {{}}, {{"cd"}}, {{"axe"}, {"zz"}}} {
			for _, p := range [][][2]string{{{"e", "z"}}, {{">", "q"}}, {{"<", "q"}, {"e", `""`}}} {
				out = append(out, c06Case{F: f, X: x, Pairs: p, Plain: x == nil})
			}
		}
	}
	// a chain of three definitions in the include file (see files()): the exclude file is read with the same definitions
	for _, f := range [][]string{{"{{o}}1"}, {"{{o}}1", "ab"}, {"cd", "{{o}}1", "{{o}}2"}} {
		for _, x := range [][][]string{{{"{{o}}1"}}, {{"zz"}}, {{"ab"}, {"{{o}}1"}}, {{"zyx1"}}} {
			for _, p := range [][][2]string{nil, {{"1", "9"}}} {
				out = append(out, c06Case{F: f, X: x, Pairs: p})
			}
		}
	}
	for _, f := range fs {
		for _, x := range xsets {
			for _, p := range c06Pairs {
				if x == nil {
					if p == nil {
						continue
					}
					out = append(out, c06Case{F: f, Pairs: p, Plain: true})
					continue
				}
				out = append(out, c06Case{F: f, X: x, Pairs: p})
			}
		}
	}
	return out
}

func c06Eval(root *inproc.Root, c c06Case, bound int, st *c06Out) *c06Fail {
	f, xs := c.files()
	os.WriteFile(filepath.Join(root.Dir, "regex-assembly/include/inc.ra"), []byte(f), 0o644)
	for i := 0; i < 3; i++ {
		p := filepath.Join(root.Dir, fmt.Sprintf("regex-assembly/exclude/ex%d.ra", i))
		if i < len(xs) {
			os.WriteFile(p, []byte(xs[i]), 0o644)
		} else {
			os.Remove(p)
		}
	}
	cands, err := c.candidates()
	if err != nil {
		return &c06Fail{Case: c, Harn: "model: " + err.Error()}
	}
	a := c.programA()
	oa, _, ex := outcomesUnder(bound, func() string { return root.Generate(a).String() })
	st.Cases++
	st.Execs += ex + len(cands)
	var ob []string
	for _, b := range cands {
		ob = append(ob, root.Generate(b).String())
	}
	fail := &c06Fail{Case: c, A: a, B: cands, OutA: oa, OutB: ob}
	if len(oa) != 1 {
		fail.Clause = "single-outcome"
		return fail
	}
	for _, o := range ob {
		if o == oa[0] {
			st.ByteEqual++
			return nil
		}
	}
	// duplicates in F: only the language must agree
	noDup := true
	seen := map[string]bool{}
	for _, l := range c.F {
		if strings.TrimSpace(l) != "" && !strings.HasPrefix(l, "##!") {
			if seen[l] {
				noDup = false
			}
			seen[l] = true
		}
	}
	for _, o := range ob {
		if strings.HasPrefix(o, "ok:") != strings.HasPrefix(oa[0], "ok:") {
			continue
		}
		if !strings.HasPrefix(o, "ok:") {
			return nil
		}
		res, confirmed, err := rx.Decide(oa[0][3:], o[3:], rx.Equiv, rx.Options{ExcludeVT: true})
		if err != nil {
			continue
		}
		st.PStates += res.States
		st.PTrans += res.Transitions
		if res.Inconclusive {
			st.Inconclusive++
			return nil
		}
		if res.Holds {
			if noDup {
				fail.Clause = "order-preserved-bytes"
				return fail
			}
			return nil
		}
		fail.W = res.Witness
		if !confirmed {
			fail.Harn = "witness not confirmed by regexp"
		}
	}
	fail.Clause = "except-equals-inline"
	if len(c.Pairs) > 0 {
		// does it already differ without the pairs? then it is the set difference, otherwise the rewrite
		q := c
		q.Pairs = nil
		if !q.Plain {
			var tmp c06Out
			if c06Eval(root, q, 0, &tmp) == nil {
				fail.Clause = "suffix-rewrite"
			}
		} else {
			fail.Clause = "suffix-rewrite"
		}
	}
	return fail
}

func C06(r *core.Run) {
	if !r.IsWorker() && !core.Instrumented() {
		r.HarnessError("C06 needs the map-range instrumented build (vtool-sched)")
		return
	}
	dir := ""
	if !r.IsWorker() {
		dir = core.Scratch("c06")
		defer os.RemoveAll(dir)
	}
	type in struct {
		Dir      string
		MaxF     int
		Thorough bool
		Bound    int
	}
	spec := in{dir, r.Pick(2, 3), r.Thorough(), r.Pick(1, 2)}
	if r.Degraded() {
		spec = in{dir, 1, false, 1}
	}
	outs, deaths := core.Parallel(r, "sweep", spec, r.Workers, func(in in, shard, n int, emit func(c06Out)) {
		wd := filepath.Join(in.Dir, fmt.Sprint("w", shard))
		c01Tree().Materialise(wd)
		root := inproc.NewRoot(wd)
		var out c06Out
		// line classification order is C03's topic: here only the maps of include-except and of definition expansion are scheduled
		core.SiteFilter = func(site string) bool { return !strings.HasSuffix(site, ":parseLine") }
		for i, c := range c06Cases(in.MaxF, in.Thorough) {
			if i%n != shard {
				continue
			}
			r.Inflight(fmt.Sprintf("%+v", c))
			if f := c06Eval(root, c, in.Bound, &out); f != nil {
				out.Fails = append(out.Fails, *f)
			}
		}
		emit(out)
	})
	// conformance: the complete space with F of one line through the CLI
	type confRes struct {
		A       string
		In, Cli string
		Agree   bool
	}
	conf, d2 := core.Parallel(r, "conf", spec, r.Workers, func(in in, shard, n int, emit func(confRes)) {
		wd := filepath.Join(in.Dir, fmt.Sprint("c", shard))
		c01Tree().Materialise(wd)
		root := inproc.NewRoot(wd)
		for i, c := range c06Cases(1, false) {
			if i%n != shard {
				continue
			}
			var tmp c06Out
			c06Eval(root, c, 0, &tmp) // writes the files
			a := c.programA()
			o := root.Generate(a)
			cli := core.RunCLI(r.Crs, wd, a, nil, "-d", wd, "regex", "generate", "-")
			emit(confRes{a, o.String(), cliClass(cli), agreeCLI(o, cli)})
		}
	})
	deaths = append(deaths, d2...)
	if r.IsWorker() {
		return
	}
	for _, d := range deaths {
		r.HarnessError("worker %s/%d %s on %q: %s", d.Stage, d.Shard, d.Kind, d.Case, tailStr(d.Log, 300))
	}
	validated := 0
	for _, c := range conf {
		if c.Agree {
			validated++
		} else {
			r.HarnessError("in-process and CLI disagree on %q: %s vs %s", c.A, c.In, c.Cli)
		}
	}
	var tot c06Out
	for _, o := range outs {
		tot.Cases += o.Cases
		tot.Execs += o.Execs
		tot.PStates += o.PStates
		tot.PTrans += o.PTrans
		tot.ByteEqual += o.ByteEqual
		tot.Inconclusive += o.Inconclusive
		tot.Fails = append(tot.Fails, o.Fails...)
	}
	// minimal failing cases: smallest F, fewest exclude words, fewest pairs first; skip cases that contain a reported one
	size := func(f c06Fail) int {
		n := len(f.Case.F)*100 + len(f.Case.Pairs)*10
		for _, x := range f.Case.X {
			n += 1 + len(x)
		}
		return n
	}
	sort.SliceStable(tot.Fails, func(i, j int) bool { return size(tot.Fails[i]) < size(tot.Fails[j]) })
	reported := 0
	seenKey := map[string]bool{}
	for _, f := range tot.Fails {
		if f.Harn != "" {
			r.HarnessError("%s (%+v)", f.Harn, f.Case)
			continue
		}
		fl, xs := f.Case.files()
		key := fmt.Sprintf("%s | F=%q X=%q", f.Case.directive(), fl, xs)
		if seenKey[f.Clause] && reported > 30 {
			continue
		}
		seenKey[f.Clause] = true
		reported++
		r.Report(core.Violation{Clause: f.Clause, Key: key,
			What:   fmt.Sprintf("%s with include file %q and exclude files %q gives %q; done by hand (%q) it gives %q", f.Case.directive(), fl, xs, clip(f.OutA, 100), f.B, clip(f.OutB, 100)),
			Detail: f, Repro: reproGenerate(f.A)})
	}
	r.Cov["evaluations"] = tot.Execs
	r.Cov["states"] = tot.Cases + tot.PStates
	r.Cov["transitions"] = tot.Execs + tot.PTrans
	r.Cov["cases"] = tot.Cases
	r.Cov["byte_identical_cases"] = tot.ByteEqual
	r.Cov["failing_cases"] = len(tot.Fails)
	r.Cov["distinct_nontrivial"] = tot.Cases
	r.Cov["traces_validated_against_impl"] = validated
	r.Cov["exhaustive"] = tot.Inconclusive == 0 && len(deaths) == 0
	r.Cov["bound"] = map[string]any{"include_file_lines": spec.MaxF, "line_alphabet": c06Lines, "exclude_words": c06Words, "pair_lists": len(c06Pairs), "schedule_deviations": spec.Bound, "scheduled_sites": "all map ranges except the directive-pattern loop of parseLine (explored by C03)"}
	r.Cov["rule"] = "all include files of <= n lines over the line alphabet x exclude sets (none = plain include with pairs, one empty file, one file with 1-2 words, two files with one word each) x suffix pair lists; the program with the directive is generated under every map schedule with <= bound deviations and must give one outcome, byte-identical (no duplicate lines) or language-equal to the hand-made program from ref.Except"
	cs := c06Cases(1, false)
	r.Cov["samples"] = []any{cs[3], cs[len(cs)/2], cs[len(cs)-1]}
	r.Assume = append(r.Assume, "when several pairs match the same entry the statement does not fix which one applies: every priority order of the pairs is accepted as hand-made reading")
}
