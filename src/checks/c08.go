package checks

import (
	"fmt"
	"os"
	"path/filepath"
	"sort"
	"strings"

	"github.com/coreruleset/crs-toolchain/v2/zz_verif/core"
)

func init() { Registry["C08"] = C08 }

type c08Arch struct {
	Name        string
	Text        string
	Fails       bool // generate fails when the file is processed alone
	Chain       bool
	Include     bool   // not a rule file: lives in include/
	OfPrev      bool   // chain link file of the previous file's rule (same id, offset 1)
	FailsFormat bool   // format of the file fails as well
	Spell       string // the chain part of the file name as written (default -chain1 for Chain, none otherwise)
}

var c08Archs = []c08Arch{
	{Name: "plain", Text: "foo\n  bar\n"},
	{Name: "stores-x", Text: "a\n##!=< x\nb\n##!=> x\n"},
	{Name: "uses-x-unstored", Text: "c\n##!=> x\n", Fails: true},
	{Name: "defines-d", Text: "##!> define d dd\n{{d}}z\n"},
	{Name: "uses-d-undefined", Text: "{{d}}y\n"},
	{Name: "flags-prefix-suffix", Text: "##!+ i\n##!^ p\n##!$ s\nmid\nmud\n"},
	{Name: "block-left-open", Text: "##!> assemble\nopen\n", Fails: true},
	{Name: "chain1", Text: "  chained\nlink\n", Chain: true},
	{Name: "include-helper", Text: "  helper\n\n\n", Include: true},
	{Name: "uses-include", Text: "##!> include helper2\nown\n"},
	{Name: "chain1-of-previous-rule", Text: "second\nlink\n", OfPrev: true},
	{Name: "include-except-of-helper2", Text: "##!> include-except helper2 helperx\nmine\n"},
	{Name: "include-helper2-with-suffix-pairs", Text: "##!> include helper2 -- x y\n"},
	{Name: "cmdline-marked-words", Text: "##!> cmdline unix\ncurl@\nwget~\n##!<\n"},
	{Name: "cmdline-bare-words", Text: "##!> cmdline unix\ncurl\nwget@\n##!<\n"},
	{Name: "stray-end-marker", Text: "  foo\n##!<\n", Fails: true, FailsFormat: true},
	// offsets that are not spelled canonically name the file as written
	{Name: "chain01-spelling", Text: "  padded\nlink\n", Chain: true, Spell: "-chain01"},
	// many include-except directives in one process (two such files resolve 18 of them)
	{Name: "many-include-excepts", Text: strings.Repeat("##!> include-except helper2 helperx\n", 9) + "own\n"},
	// line lists that read the same when printed without separators
	{Name: "two-lines", Text: "union\nselect\n"},
	{Name: "one-line-with-a-blank", Text: "union select\n"},
	{Name: "chain0-spelling", Text: "  zero\noffset\n", Spell: "-chain0"},
	// a file with CR LF line ends (whatever format does with them, it does it to this file only)
	{Name: "crlf-lines", Text: "  one\r\ntwo\r\n"},
	// a canonical file without the i flag that has an upper-case class (fine on its own; the lint belongs to files with the flag)
	{Name: "upper-case-class-canonical", Text: "##! Please refer to the documentation at\n##! https://coreruleset.org/docs/development/regex_assembly/.\n\n[A-Z]+bart\n"},
}

type c08File struct {
	Arch int
	Arg  string // CLI argument addressing the file
	Path string
	ID   string
}

type c08Tree struct {
	Archs []int
	Files []c08File
	Tree  core.Tree
}

func c08Build(sel []int) c08Tree {
	t := core.Tree{"regex-assembly/toolchain.yaml": c01Yaml, "regex-assembly/include/helper2.ra": "##! Please refer to the documentation at\n##! https://coreruleset.org/docs/development/regex_assembly/.\n\n##!> define d leak\nxx\n", "regex-assembly/exclude/helperx.ra": "##! Please refer to the documentation at\n##! https://coreruleset.org/docs/development/regex_assembly/.\n\nxx\n"}
	// the helper's name also exists in the exclude directory, with other content (an include means the include directory)
	t["regex-assembly/exclude/helper2.ra"] = "##! Please refer to the documentation at\n##! https://coreruleset.org/docs/development/regex_assembly/.\n\nfromexcludedir\n"
	var rules []ruleSpec
	var files []c08File
	for i, a := range sel {
		id := fmt.Sprint(123451 + i)
		ar := c08Archs[a]
		switch {
		case ar.OfPrev && i > 0 && len(rules) > 0 && len(rules[len(rules)-1].Chain) == 0 && files[len(files)-1].ID != "":
			prev := &rules[len(rules)-1]
			prev.Chain = []string{"OLDLINK" + prev.ID}
			p := "regex-assembly/" + prev.ID + "-chain1.ra"
			t[p] = ar.Text
			files = append(files, c08File{a, prev.ID + "-chain1", p, prev.ID})
		case ar.Include:
			p := fmt.Sprintf("regex-assembly/include/helper%d.ra", i)
			t[p] = ar.Text
			// a file of the same name in the exclude directory, already formatted: `format helperN` means the include file
			t[fmt.Sprintf("regex-assembly/exclude/helper%d.ra", i)] = "##! Please refer to the documentation at\n##! https://coreruleset.org/docs/development/regex_assembly/.\n\ntwin\n"
			files = append(files, c08File{a, fmt.Sprintf("helper%d", i), p, ""})
		case ar.Chain:
			sp := "-chain1"
			if ar.Spell != "" {
				sp = ar.Spell
			}
			p := "regex-assembly/" + id + sp + ".ra"
			t[p] = ar.Text
			rules = append(rules, ruleSpec{ID: id, Regex: "KEEP" + id, Chain: []string{"OLD" + id}})
			files = append(files, c08File{a, id + sp, p, id})
		default:
			p := "regex-assembly/" + id + ar.Spell + ".ra"
			t[p] = ar.Text
			rules = append(rules, ruleSpec{ID: id, Regex: "OLD" + id})
			files = append(files, c08File{a, id + ar.Spell, p, id})
		}
	}
	t["rules/REQUEST-123-TEST.conf"] = rulesFile(rules...)
	return c08Tree{sel, files, t}
}

func c08Trees(max int) []c08Tree {
	var out []c08Tree
	enumSeq(len(c08Archs), max, func(_ int, seq []int) {
		// (for update and compare a failing archetype is only explored in the last walk position, see below)
		// include helpers sort after rule files in the walk; keep them last as well
		for i, a := range seq {
			if c08Archs[a].Include && i != len(seq)-1 {
				return
			}
		}
		out = append(out, c08Build(append([]int{}, seq...)))
	})
	return out
}

type c08Fail struct {
	Archs   []string `json:"archetypes"`
	Cmd     string   `json:"cmd"`
	Clause  string   `json:"clause"`
	Why     string   `json:"why"`
	AllExit int      `json:"all_exit"`
	Detail  any      `json:"detail,omitempty"`
}

// compareChunks splits compare output into per-rule reports.
func compareChunks(s string) []string {
	var out []string
	for _, c := range strings.Split(s, "Regex of ") {
		if strings.TrimSpace(c) != "" {
			out = append(out, strings.TrimSpace(c))
		}
	}
	sort.Strings(out)
	return out
}

func C08(r *core.Run) {
	r.CLIOnly = true
	dir := ""
	if !r.IsWorker() {
		dir = core.Scratch("c08")
		defer os.RemoveAll(dir)
	}
	type in struct {
		Dir string
		Max int
	}
	type out struct {
		Trees, States, Transitions, Terminal int
		Fails                                []c08Fail
	}
	outs, deaths := core.Parallel(r, "bfs", in{dir, r.Pick(2, 3)}, r.Workers, func(in in, shard, n int, emit func(out)) {
		var o out
		sb := filepath.Join(in.Dir, fmt.Sprint("w", shard))
		for ti, tr := range c08Trees(in.Max) {
			if ti%n != shard {
				continue
			}
			o.Trees++
			names := func() []string {
				var ns []string
				for _, a := range tr.Archs {
					ns = append(ns, c08Archs[a].Name)
				}
				return ns
			}()
			anyFails := false
			for _, a := range tr.Archs {
				anyFails = anyFails || c08Archs[a].Fails
			}
			failsEarly := false
			for i, a := range tr.Archs {
				if c08Archs[a].Fails && i != len(tr.Archs)-1 {
					failsEarly = true
				}
			}
			for _, cmd := range []string{"update", "compare", "format"} {
				if failsEarly && cmd != "format" {
					continue // update/compare --all stop at the first failing file by design (C16): only format continues
				}
				var files []c08File
				for _, f := range tr.Files {
					if cmd != "format" && f.ID == "" {
						continue // include helpers are not rule files
					}
					files = append(files, f)
				}
				if len(files) == 0 {
					continue
				}
				r.Inflight(fmt.Sprint(names, cmd))
				// --all
				os.RemoveAll(sb)
				tr.Tree.Materialise(sb)
				all := core.RunCLI(r.Crs, sb, "", nil, "-d", sb, "regex", cmd, "--all")
				allTree := core.ReadTree(sb)
				o.Transitions++
				// BFS over all orders of single invocations; state = (processed set, tree)
				type state struct {
					done int
					tree core.Tree
					outs []string // compare reports collected so far
					fail int      // bitmask of files whose single invocation failed
				}
				key := func(s state) string {
					return fmt.Sprint(s.done, "|", treeHash(s.tree), "|", s.fail, "|", strings.Join(compareChunks(strings.Join(s.outs, "")), "#"))
				}
				initTree := core.Tree{}
				for k, v := range tr.Tree {
					if !strings.HasSuffix(k, "/") {
						initTree[k] = v
					}
				}
				init := state{0, initTree, nil, 0}
				seen := map[string]bool{key(init): true}
				frontier := []state{init}
				var terminals, mids []state
				for len(frontier) > 0 {
					s := frontier[0]
					frontier = frontier[1:]
					o.States++
					if s.done == 1<<len(files)-1 {
						terminals = append(terminals, s)
						continue
					}
					if s.done != 0 {
						mids = append(mids, s)
					}
					for fi, f := range files {
						if s.done&(1<<fi) != 0 {
							continue
						}
						os.RemoveAll(sb)
						s.tree.Materialise(sb)
						res := core.RunCLI(r.Crs, sb, "", nil, "-d", sb, "regex", cmd, f.Arg)
						o.Transitions++
						ns := state{s.done | 1<<fi, core.ReadTree(sb), append(append([]string{}, s.outs...), res.Stdout), s.fail}
						failed := res.Exit != 0
						if cmd == "compare" {
							failed = res.Exit != 0 && !strings.Contains(res.Stdout, "Regex of")
						}
						if failed {
							ns.fail |= 1 << fi
						}
						if k := key(ns); !seen[k] {
							seen[k] = true
							frontier = append(frontier, ns)
						}
					}
				}
				o.Terminal += len(terminals)
				fail := func(clause, why string, detail any) {
					o.Fails = append(o.Fails, c08Fail{names, cmd, clause, why, all.Exit, detail})
				}
				if len(terminals) != 1 {
					var hs []string
					for _, t := range terminals {
						hs = append(hs, key(t))
					}
					fail("orders-confluent-"+cmd, fmt.Sprintf("%d different end states over the orders of single invocations", len(terminals)), hs)
					continue
				}
				term := terminals[0]
				if cmd == "format" {
					// the verdicts of --check: --all names exactly the files that single --check invocations name
					os.RemoveAll(sb)
					tr.Tree.Materialise(sb)
					notFormatted := func(out string) []string {
						var ns []string
						for _, l := range strings.Split(out, "\n") {
							if strings.Contains(l, "not properly formatted") {
								ns = append(ns, strings.TrimSpace(strings.TrimPrefix(l, "::warning ::")))
							}
						}
						sort.Strings(ns)
						return ns
					}
					for _, mode := range [][]string{nil, {"-o", "github"}} {
						call := func(arg string) core.CLIResult {
							o.Transitions++
							return core.RunCLI(r.Crs, sb, "", nil, append(append([]string{"-d", sb}, mode...), "regex", "format", "--check", arg)...)
						}
						ca := call("--all")
						var singles []string
						anyFail := false
						for _, f := range files {
							cs := call(f.Arg)
							singles = append(singles, notFormatted(cs.Stdout)...)
							anyFail = anyFail || cs.Exit != 0
						}
						sort.Strings(singles)
						if got := notFormatted(ca.Stdout); strings.Join(got, "#") != strings.Join(singles, "#") || (ca.Exit != 0) != anyFail {
							fail("all-equals-any-order-format", fmt.Sprintf("format --check --all %v names %v (exit %d), the single --check invocations name %v (some failed: %v)", mode, got, ca.Exit, singles, anyFail), nil)
						}
					}
					// format --all handles every file on its own, failing ones included
					if treeHash(allTree) != treeHash(term.tree) {
						fail("all-equals-any-order-format", "tree after format --all differs from the tree after the single invocations", diffTrees(term.tree, allTree))
					}
					if (term.fail != 0) != (all.Exit != 0) {
						fail("all-equals-any-order-format", fmt.Sprintf("format --all exit %d but single invocations failed=%v", all.Exit, term.fail != 0), nil)
					}
					continue
				}
				if anyFails {
					// a file that fails alone must also make --all fail (nothing another file computed may rescue it)
					if term.fail != 0 && all.Exit == 0 {
						fail("all-equals-any-order-"+cmd, "a file that fails on its own is accepted by --all", tailStr(all.Stdout, 300))
					}
					if cmd == "update" && treeHash(allTree) != treeHash(term.tree) && treeHash(allTree) != treeHash(initTree) {
						fail("all-equals-any-order-"+cmd, "--all leaves a tree that is neither untouched nor what the single invocations leave", diffTrees(term.tree, allTree))
					}
					continue
				}
				if term.fail != 0 {
					fail("all-equals-any-order-"+cmd, "single invocation of a valid file failed", term.fail)
					continue
				}
				if treeHash(allTree) != treeHash(term.tree) {
					fail("all-equals-any-order-"+cmd, "tree after --all differs from the tree after the single invocations", diffTrees(term.tree, allTree))
				}
				if cmd == "compare" {
					a, b := compareChunks(all.Stdout), compareChunks(strings.Join(term.outs, ""))
					if strings.Join(a, "#") != strings.Join(b, "#") {
						fail("per-rule-report-equal", "compare --all reports differ from the single reports", map[string]any{"all": a, "single": b})
					}
				}
				if cmd == "compare" {
					// the same in GitHub mode: every rule that a single invocation reports is reported by --all, and
					// --all fails exactly when one of them does
					os.RemoveAll(sb)
					tr.Tree.Materialise(sb)
					ga := core.RunCLI(r.Crs, sb, "", nil, "-d", sb, "-o", "github", "regex", "compare", "--all")
					o.Transitions++
					var singles string
					anyFail := false
					for _, f := range files {
						gs := core.RunCLI(r.Crs, sb, "", nil, "-d", sb, "-o", "github", "regex", "compare", f.Arg)
						o.Transitions++
						singles += gs.Stdout
						anyFail = anyFail || gs.Exit != 0
					}
					heads := func(out string) []string {
						var hs []string
						for _, l := range strings.Split(out, "\n") {
							if strings.Contains(l, "Regex of ") {
								hs = append(hs, l)
							}
						}
						sort.Strings(hs)
						return hs
					}
					if a, b := heads(ga.Stdout), heads(singles); strings.Join(a, "#") != strings.Join(b, "#") || (ga.Exit != 0) != anyFail {
						fail("per-rule-report-equal", fmt.Sprintf("compare --all in GitHub mode reports %v (exit %d), the single invocations report %v (some failed: %v)", a, ga.Exit, b, anyFail), tailStr(ga.Stderr, 300))
					}
				}
				if all.Exit != 0 && cmd != "compare" {
					fail("all-equals-any-order-"+cmd, "--all fails although every file succeeds alone", tailStr(all.Stderr, 300))
				}
				// --all from every state in between (some files already processed, others not) must reach the same end state
				if cmd == "update" {
					for _, m := range mids {
						os.RemoveAll(sb)
						m.tree.Materialise(sb)
						res := core.RunCLI(r.Crs, sb, "", nil, "-d", sb, "regex", cmd, "--all")
						o.Transitions++
						if got := core.ReadTree(sb); res.Exit != 0 || treeHash(got) != treeHash(term.tree) {
							fail("all-equals-any-order-"+cmd, fmt.Sprintf("--all started after the single invocations of files %b (bit set) does not reach the state that all single invocations reach (exit %d)", m.done, res.Exit), diffTrees(term.tree, got))
							break
						}
					}
				}
			}
		}
		emit(o)
	})
	if r.IsWorker() {
		return
	}
	for _, d := range deaths {
		r.HarnessError("worker %s/%d %s on %q: %s", d.Stage, d.Shard, d.Kind, d.Case, tailStr(d.Log, 300))
	}
	var tot out
	for _, o := range outs {
		tot.Trees += o.Trees
		tot.States += o.States
		tot.Transitions += o.Transitions
		tot.Terminal += o.Terminal
		tot.Fails = append(tot.Fails, o.Fails...)
	}
	sort.Slice(tot.Fails, func(i, j int) bool { return len(tot.Fails[i].Archs) < len(tot.Fails[j].Archs) })
	seen := map[string]bool{}
	for _, f := range tot.Fails {
		key := fmt.Sprintf("%s %v", f.Cmd, f.Archs)
		// report the smallest tree per (clause, involved archetype set)
		short := f.Clause + fmt.Sprint(uniqSorted(f.Archs))
		if seen[short] {
			continue
		}
		seen[short] = true
		r.Report(core.Violation{Clause: f.Clause, Key: key, What: fmt.Sprintf("tree with files %v, %s: %s", f.Archs, f.Cmd, f.Why), Detail: f})
	}
	r.Cov["evaluations"] = tot.Transitions
	r.Cov["states"] = tot.States
	r.Cov["transitions"] = tot.Transitions
	r.Cov["trees"] = tot.Trees
	r.Cov["terminal_states"] = tot.Terminal
	r.Cov["traces_validated_against_impl"] = tot.Transitions
	r.Cov["distinct_nontrivial"] = tot.Trees
	r.Cov["exhaustive"] = len(deaths) == 0
	r.Cov["bound"] = map[string]any{"archetypes": len(c08Archs), "files_per_tree": r.Pick(2, 3), "commands": 3}
	r.Cov["rule"] = "all ordered selections of <= n file archetypes (failing ones and include helpers only last) given ascending rule ids; per tree and command: one --all run and an explicit-state BFS over all orders of single-file invocations with the real CLI (state = processed set + whole tree + reports so far); all orders must reach one terminal state equal to the --all state, compare reports equal as multisets; files that fail alone must make --all fail; for update, --all is also started from every intermediate state of the BFS (some files processed, others not) and must reach the common end state"
	r.Cov["samples"] = []any{[]string{"stores-x", "uses-x-unstored"}, []string{"defines-d", "uses-d-undefined", "chain1"}, []string{"flags-prefix-suffix", "plain", "include-helper"}}
	r.Assume = append(r.Assume, "for a tree containing a file that fails on its own, update --all may leave either the untouched tree (all-or-nothing) or the tree the single invocations leave; both readings of C16/C08 are accepted")
}

func treeHash(t core.Tree) string {
	keys := make([]string, 0, len(t))
	for k := range t {
		keys = append(keys, k)
	}
	sort.Strings(keys)
	var sb strings.Builder
	for _, k := range keys {
		sb.WriteString(k + "\x00" + t[k] + "\x01")
	}
	return core.Hash(sb.String())
}

func diffTrees(a, b core.Tree) map[string][2]string {
	d := map[string][2]string{}
	for k, v := range a {
		if b[k] != v {
			d[k] = [2]string{v, b[k]}
		}
	}
	for k, v := range b {
		if _, ok := a[k]; !ok {
			d[k] = [2]string{"", v}
		}
	}
	return d
}

func uniqSorted(xs []string) []string {
	m := map[string]bool{}
	for _, x := range xs {
		m[x] = true
	}
	var out []string
	for x := range m {
		out = append(out, x)
	}
	sort.Strings(out)
	return out
}
