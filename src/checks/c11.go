package checks

import (
	"fmt"
	"os"
	"path/filepath"
	"sort"
	"strconv"
	"strings"

	"github.com/coreruleset/crs-toolchain/v2/zz_verif/core"
	"github.com/coreruleset/crs-toolchain/v2/zz_verif/inproc"
)

func init() { Registry["C11"] = C11 }

var c11OffsetSpellings = []string{"0", "1", "2", "3", "4", "00", "01", "002", "0000000001", "9", "10", "255", "256", "257", "258", "259", "260", "511", "512", "513", "514", "0256", "65535", "65536", "65537", "65538",
	"4294967295", "4294967296", "4294967297", "4294967298", "18446744073709551615", "18446744073709551616", "18446744073709551617", "18446744073709551618", "99999999999999999999999999"}

// A block of a rules file, with generation-side knowledge of every SecRule line.
type secLine struct {
	Rule  string // id of the rule this SecRule line belongs to
	Link  int    // 0 = the rule's own line, k = k-th chained SecRule
	Op    string // @rx, !@rx, @pm
	Line  int    // line index within the block
	Start int    // byte offsets of the operand within the line
	End   int
}

type c11Block struct {
	Name  string
	Lines []string
	Sec   []secLine
}

// c11VarOp: an operator may be written "VARIABLES|operator" to choose the variable list of its SecRule line
func c11VarOp(op string) (vars, oper string) {
	if i := strings.Index(op, "|"); i >= 0 {
		return op[:i], op[i+1:]
	}
	return "ARGS", op
}

func c11Sec(indent, op, operand string) (string, int, int) {
	vars, op := c11VarOp(op)
	pre := indent + `SecRule ` + vars + ` "` + op + " "
	return pre + operand + `" \`, len(pre), len(pre) + len(operand)
}

func c11Rule(id, op, operand string, extra int, chain []string) c11Block {
	b := c11Block{Name: fmt.Sprintf("rule %s %s %q extra=%d chain=%v", id, op, operand, extra, chain)}
	l, s, e := c11Sec("", op, operand)
	b.Lines = append(b.Lines, l)
	b.Sec = append(b.Sec, secLine{id, 0, op, 0, s, e})
	b.Lines = append(b.Lines, `    "id:`+id+`,\`)
	for i := 0; i < extra; i++ {
		b.Lines = append(b.Lines, []string{`    phase:2,\`, `    msg:'id:` + id + ` matched',\`}[i%2])
	}
	if len(chain) == 0 {
		b.Lines = append(b.Lines, `    t:none"`)
		return b
	}
	b.Lines = append(b.Lines, `    chain"`)
	for k, cop := range chain {
		ind := strings.Repeat("    ", k+1)
		l, s, e := c11Sec(ind, cop, fmt.Sprintf("LINK%d", k+1))
		_, plainOp := c11VarOp(cop)
		b.Sec = append(b.Sec, secLine{id, k + 1, plainOp, len(b.Lines), s, e})
		b.Lines = append(b.Lines, l)
		if k < len(chain)-1 {
			b.Lines = append(b.Lines, ind+`    "t:none,\`, ind+`    chain"`)
		} else {
			b.Lines = append(b.Lines, ind+`    "t:none"`)
		}
	}
	return b
}

const c11R = "123456"

func c11Blocks(thorough bool) []c11Block {
	bs := []c11Block{
		{Name: "comment", Lines: []string{"# plain comment"}},
		{Name: "comment with id:R", Lines: []string{"# see id:" + c11R + " for details"}},
		{Name: "comment with R", Lines: []string{"# rule " + c11R + " is special"}},
		{Name: "blank", Lines: []string{""}},
	}
	for _, id := range []string{c11R, "123457", "1234567"} {
		for _, op := range []string{"@rx", "!@rx", "@pm"} {
			for _, extra := range []int{0, 2} {
				if id != c11R && extra == 2 && !thorough {
					continue
				}
				bs = append(bs, c11Rule(id, op, "OLD"+id, extra, nil))
			}
		}
	}
	bs = append(bs, c11Rule(c11R, "@rx", `x\"@rx y`, 0, nil), c11Rule(c11R, "@rx", `q\" \x5cz`, 0, nil))
	// stored operands that start or end with white space, an empty one, and one whose text also occurs earlier in its line
	bs = append(bs, c11Rule(c11R, "@rx", "  lead", 0, nil), c11Rule(c11R, "!@rx", "trail \t", 0, nil), c11Rule(c11R, "@rx", "", 0, nil), c11Rule(c11R, "@rx", "ARGS", 0, nil), c11Rule(c11R, "@rx", "S", 0, []string{"@rx"}))
	for _, chain := range [][]string{{"@rx"}, {"@pm"}, {"@rx", "@rx"}, {"@pm", "@rx"}, {"@rx", "@pm", "@rx"}} {
		bs = append(bs, c11Rule(c11R, "@rx", "OLD", 0, chain))
	}
	// chained rules whose variable list starts with & or ! (counted like every other SecRule line)
	for _, chain := range [][]string{{"&TX:foo|@eq", "@rx"}, {"!ARGS:x|@rx", "@rx"}, {"@rx", "&TX:n|@eq", "@rx"}} {
		bs = append(bs, c11Rule(c11R, "@rx", "OLD", 0, chain))
	}
	bs = append(bs, c11Rule("123457", "@pm", "OLDN", 0, []string{"@rx"}))
	// the word SecRule in a comment or an action between the starter and its chained rule is not a rule
	withNoise := func(noise string) c11Block {
		b := c11Rule(c11R, "@rx", "OLD", 0, []string{"@rx", "@rx"})
		b.Name += " noise=" + noise
		var lines []string
		shift := map[int]int{}
		for i, l := range b.Lines {
			shift[i] = len(lines)
			lines = append(lines, l)
			if i == 1 {
				lines = append(lines, noise)
			}
		}
		for i := range b.Sec {
			b.Sec[i].Line = shift[b.Sec[i].Line]
		}
		b.Lines = lines
		return b
	}
	// another rule whose quoted action value mentions the target's id
	mention := func(line string) c11Block {
		b := c11Rule("123457", "@rx", "OLDM", 0, nil)
		b.Name += " mentions=" + line
		b.Lines = append(b.Lines[:2:2], append([]string{line}, b.Lines[2:]...)...)
		return b
	}
	bs = append(bs, mention(`    msg:'see id:`+c11R+` for details',\`), mention(`    logdata:'it\'s id:`+c11R+`',\`))
	bs = append(bs, withNoise(`    msg:'see SecRule 123457',\`), withNoise(`    # SecRule ARGS "@rx disabled" \`), withNoise(`    tag:'chain',\`))
	return bs
}

var c11Regexes = []string{"foo", "a$1b", `a\"b`, `a\"@rx b`, `a\" \x5cb`, " a b ", strings.Repeat("(?:abcdefg)+", 7)}

type c11Case struct {
	Blocks  []int  `json:"blocks"`
	CRLF    bool   `json:"crlf"`
	FinalNL bool   `json:"final_newline"`
	Target  string `json:"target"`
	Offset  int    `json:"offset"`
	Regex   string `json:"regex"`
}

// render builds the file and the model's answer: index of the byte span to replace, or -1 (no target).
func (c c11Case) render(blocks []c11Block) (content string, spanStart, spanEnd int) {
	nl := "\n"
	if c.CRLF {
		nl = "\r\n"
	}
	var sb strings.Builder
	spanStart, spanEnd = -1, -1
	matches := 0
	for bi, idx := range c.Blocks {
		b := blocks[idx]
		lineStart := make([]int, len(b.Lines))
		for li, l := range b.Lines {
			lineStart[li] = sb.Len()
			sb.WriteString(l)
			if bi < len(c.Blocks)-1 || li < len(b.Lines)-1 || c.FinalNL {
				sb.WriteString(nl)
			}
		}
		for _, s := range b.Sec {
			if s.Rule == c.Target && s.Link == c.Offset {
				matches++
				if s.Op == "@rx" || s.Op == "!@rx" {
					spanStart, spanEnd = lineStart[s.Line]+s.Start, lineStart[s.Line]+s.End
				} else {
					spanStart, spanEnd = -1, -1
				}
			}
		}
	}
	if matches > 1 {
		// the same rule id twice in one file is outside the model
		return sb.String(), -2, -2
	}
	return sb.String(), spanStart, spanEnd
}

type c11Fail struct {
	Case   c11Case `json:"case"`
	Clause string  `json:"clause"`
	Why    string  `json:"why"`
	File   string  `json:"rules_file"`
	Got    string  `json:"after"`
	Want   string  `json:"expected"`
	Kind   string  `json:"outcome"`
}

func c11Cases(blocks []c11Block, maxBlocks int, thorough bool, visit func(c c11Case)) {
	enumSeq(len(blocks), maxBlocks, func(_ int, seq []int) {
		// targets: every rule id of the file plus an absent one
		ids := map[string]bool{"999999": true}
		dup := false
		for _, i := range seq {
			for _, s := range blocks[i].Sec {
				if s.Link == 0 {
					if ids[s.Rule] {
						dup = true
					}
					ids[s.Rule] = true
				}
			}
		}
		if dup {
			return
		}
		regs := c11Regexes
		if len(seq) >= 3 {
			regs = []string{"foo", `a\"@rx b`}
		}
		if len(seq) >= 4 {
			regs = []string{"foo"}
		}
		var targets []string
		for id := range ids {
			targets = append(targets, id)
		}
		sort.Strings(targets)
		for _, crlf := range []bool{false, true} {
			for _, fnl := range []bool{true, false} {
				if len(seq) >= 3 && (crlf != !fnl) || len(seq) >= 4 && crlf {
					continue
				}
				for _, t := range targets {
					for off := 0; off <= 3; off++ {
						for _, re := range regs {
							visit(c11Case{append([]int{}, seq...), crlf, fnl, t, off, re})
						}
					}
				}
			}
		}
	})
}

func C11(r *core.Run) {
	dir := ""
	if !r.IsWorker() {
		dir = core.Scratch("c11")
		defer os.RemoveAll(dir)
	}
	type in struct {
		Dir      string
		Max      int
		Thorough bool
	}
	type out struct {
		Cases, Updated, NoTarget int
		Fails                    []c11Fail
	}
	spec := in{dir, r.Pick(2, 4), r.Thorough()}
	eval := func(path string, blocks []c11Block, c c11Case, o *out) {
		x, s, e := c.render(blocks)
		if s == -2 {
			return
		}
		os.WriteFile(path, []byte(x), 0o644)
		res := inproc.UpdateRegexFile(path, c.Target, uint8(c.Offset), c.Regex)
		if res.Kind == "unavailable" {
			return
		}
		b, _ := os.ReadFile(path)
		y := string(b)
		o.Cases++
		fail := func(clause, why, want string) {
			o.Fails = append(o.Fails, c11Fail{c, clause, why, x, y, want, res.Kind})
		}
		if s < 0 {
			o.NoTarget++
			if y != x {
				fail("no-target-fails-clean", "no such rule / chain link / @rx operator, but the rules file was modified", x)
			} else if res.Kind == inproc.OK {
				fail("no-target-fails-clean", "no such rule / chain link / @rx operator, but the command succeeds", x)
			} else if res.Kind == inproc.Runtime {
				fail("no-target-fails-clean", "the command crashes ("+res.Msg+") instead of reporting the missing target", x)
			}
			return
		}
		o.Updated++
		want := x[:s] + c.Regex + x[e:]
		if res.Kind != inproc.OK {
			clause := "only-operand-span-changed"
			fail(clause, fmt.Sprintf("the addressed operand exists but the command fails (%s %s)", res.Kind, res.Msg), want)
			return
		}
		if y != want {
			fail("only-operand-span-changed", "bytes other than the addressed operand changed, or the operand was not replaced exactly", want)
		}
	}
	outs, deaths := core.Parallel(r, "sweep", spec, r.Workers, func(in in, shard, n int, emit func(out)) {
		wd := filepath.Join(in.Dir, fmt.Sprint("w", shard))
		os.MkdirAll(wd, 0o755)
		path := filepath.Join(wd, "REQUEST-123-TEST.conf")
		blocks := c11Blocks(in.Thorough)
		var o out
		idx := 0
		c11Cases(blocks, in.Max, in.Thorough, func(c c11Case) {
			if idx++; idx%n != shard {
				return
			}
			r.Inflight(fmt.Sprintf("%+v", c))
			eval(path, blocks, c, &o)
			if len(o.Fails) > 4000 {
				o.Fails = o.Fails[:4000]
			}
		})
		emit(o)
	})
	// end-to-end conformance: complete one-block space through `crs regex update ARG`, other files untouched
	type confRes struct {
		Case  c11Case
		Agree bool
		Why   string
	}
	conf, d2 := core.Parallel(r, "conf", spec, r.Workers, func(in in, shard, n int, emit func(confRes)) {
		wd := filepath.Join(in.Dir, fmt.Sprint("c", shard))
		blocks := c11Blocks(false)
		idx := 0
		c11Cases(blocks, 1, false, func(c c11Case) {
			if idx++; idx%n != shard || len(c.Target) != 6 {
				return
			}
			x, _, _ := c.render(blocks)
			// in-process result
			os.MkdirAll(wd, 0o755)
			p := filepath.Join(wd, "inproc.conf")
			os.WriteFile(p, []byte(x), 0o644)
			ri := inproc.UpdateRegexFile(p, c.Target, uint8(c.Offset), "lit"+c.Target)
			a, _ := os.ReadFile(p)
			// CLI: assembly file generating the literal
			sb := filepath.Join(wd, "cli")
			os.RemoveAll(sb)
			arg := c.Target
			if c.Offset > 0 {
				arg += fmt.Sprint("-chain", c.Offset)
			}
			t := core.Tree{"regex-assembly/" + arg + ".ra": "lit" + c.Target + "\n", "rules/REQUEST-123-TEST.conf": x, "rules/REQUEST-999-OTHER.conf": "untouched\n", "regex-assembly/other.ra": " x\n"}
			t.Materialise(sb)
			before := core.Snapshot(sb)
			rc := core.RunCLI(r.Crs, sb, "", nil, "-d", sb, "regex", "update", arg)
			b, _ := os.ReadFile(filepath.Join(sb, "rules/REQUEST-123-TEST.conf"))
			ch := before.Diff(core.Snapshot(sb), false)
			others := false
			for _, x := range ch {
				if !strings.HasSuffix(x, "REQUEST-123-TEST.conf") {
					others = true
				}
			}
			agree := (ri.Kind == "unavailable" || string(a) == string(b) && (ri.Kind == inproc.OK) == (rc.Exit == 0)) && !others
			// the end-to-end result is judged by the model as well (decisive when the in-process seam is unavailable)
			_, ms, me := c.render(blocks)
			want := x
			if ms >= 0 {
				want = x[:ms] + "lit" + c.Target + x[me:]
			}
			if ms != -2 && (string(b) != want || (ms >= 0) != (rc.Exit == 0)) {
				agree = false
			}
			emit(confRes{c, agree, fmt.Sprint(ri.Kind, rc.Exit, ch, string(b) == want)})
		})
	})
	deaths = append(deaths, d2...)
	// chain offsets as written in file names and arguments: every spelling K (leading zeros, values
	// around 2^8, 2^16, 2^32, 2^64) through `update --all` and `update R-chainK`. The model: the
	// offset is the number K; it addresses the K-th chained SecRule or nothing.
	type offRes struct {
		K, Mode string
		Agree   bool
		Why     string
	}
	offs, d3 := core.Parallel(r, "offsets", spec, r.Workers, func(in in, shard, n int, emit func(offRes)) {
		sb := filepath.Join(in.Dir, fmt.Sprint("o", shard))
		idx := 0
		for _, k := range c11OffsetSpellings {
			for _, mode := range []string{"--all", "single"} {
				if idx++; idx%n != shard {
					continue
				}
				v := 1000 // numeric value of the spelling (anything above the chain length addresses nothing)
				if t := strings.TrimLeft(k, "0"); t == "" {
					v = 0
				} else if len(t) <= 3 {
					v, _ = strconv.Atoi(t)
				}
				old := []ruleSpec{{ID: "123456", Regex: "OLD", Chain: []string{"OLDC1", "OLDC2"}}, {ID: "123457", Regex: "OLDB"}}
				want := []ruleSpec{{ID: "123456", Regex: "OLD", Chain: []string{"OLDC1", "OLDC2"}}, {ID: "123457", Regex: "OLDB"}}
				okay := v >= 0 && v <= 2
				if okay {
					if mode == "--all" {
						want[1].Regex = "litb"
					}
					if v == 0 {
						want[0].Regex = "litk"
					} else {
						want[0].Chain[v-1] = "litk"
					}
				}
				t := core.Tree{"regex-assembly/123456-chain" + k + ".ra": "litk\n", "regex-assembly/123457.ra": "litb\n",
					"rules/REQUEST-123-TEST.conf": rulesFile(old...), "rules/REQUEST-999-OTHER.conf": "untouched\n"}
				os.RemoveAll(sb)
				t.Materialise(sb)
				before := core.Snapshot(sb)
				args := []string{"-d", sb, "regex", "update", "--all"}
				if mode == "single" {
					args = []string{"-d", sb, "regex", "update", "123456-chain" + k}
				}
				r.Inflight(fmt.Sprint(args))
				rc := core.RunCLI(r.Crs, sb, "", nil, args...)
				b, _ := os.ReadFile(filepath.Join(sb, "rules/REQUEST-123-TEST.conf"))
				ch := before.Diff(core.Snapshot(sb), false)
				var why []string
				if string(b) != rulesFile(want...) {
					why = append(why, fmt.Sprintf("rules file is not the expected one (offset %s addresses something: %v)", k, okay))
				}
				if (rc.Exit == 0) != okay {
					why = append(why, fmt.Sprintf("exit %d", rc.Exit))
				}
				for _, c := range ch {
					if !strings.HasSuffix(c, "REQUEST-123-TEST.conf") {
						why = append(why, "other file changed: "+c)
					}
				}
				emit(offRes{k, mode, len(why) == 0, strings.Join(why, "; ")})
			}
		}
	})
	// several assembly files per rule id in one --all run: every operand gets the regex of its own file
	multi, d4 := core.Parallel(r, "multi", spec, 1, func(in in, shard, n int, emit func(offRes)) {
		sb := filepath.Join(in.Dir, "multi")
		texts := []string{"zero", "##! generates nothing", "two", "", "otherone"}
		for rot := 0; rot < len(texts); rot++ {
			tx := append(append([]string{}, texts[rot:]...), texts[:rot]...)
			old := []ruleSpec{{ID: "123456", Regex: "OLD", Chain: []string{"OLDC1", "OLDC2"}}, {ID: "123457", Regex: "OLDB", Chain: []string{"OLDB1"}}}
			gen := func(t string) string {
				if strings.HasPrefix(t, "##!") {
					return ""
				}
				return t
			}
			want := []ruleSpec{{ID: "123456", Regex: gen(tx[0]), Chain: []string{gen(tx[1]), gen(tx[2])}}, {ID: "123457", Regex: gen(tx[3]), Chain: []string{gen(tx[4])}}}
			t := core.Tree{"regex-assembly/123456.ra": tx[0] + "\n", "regex-assembly/123456-chain1.ra": tx[1] + "\n", "regex-assembly/123456-chain2.ra": tx[2] + "\n",
				"regex-assembly/123457.ra": tx[3] + "\n", "regex-assembly/123457-chain1.ra": tx[4] + "\n", "rules/REQUEST-123-TEST.conf": rulesFile(old...)}
			os.RemoveAll(sb)
			t.Materialise(sb)
			rc := core.RunCLI(r.Crs, sb, "", nil, "-d", sb, "regex", "update", "--all")
			b, _ := os.ReadFile(filepath.Join(sb, "rules/REQUEST-123-TEST.conf"))
			emit(offRes{fmt.Sprint("five files, texts ", tx), "--all", rc.Exit == 0 && string(b) == rulesFile(want...), fmt.Sprintf("exit %d; rules file is not the one in which every operand carries the regex of its own assembly file", rc.Exit)})
		}
	})
	// a tree nested below another tree: -d <inner> updates the inner rules file from the inner assembly file
	nested, d5 := core.Parallel(r, "nested", spec, 1, func(in in, shard, n int, emit func(offRes)) {
		sb := filepath.Join(in.Dir, "nested")
		for _, inner := range []string{"outer/vendor/crs", "outer/rules/inner", "outer/regex-assembly/sub"} {
			for _, mode := range []string{"single", "--all"} {
				rf := func(re string) string { return rulesFile(ruleSpec{ID: "123456", Regex: re}) }
				t := core.Tree{"outer/regex-assembly/123456.ra": "fromouter\n", "outer/rules/REQUEST-123-TEST.conf": rf("OLDOUTER"),
					inner + "/regex-assembly/123456.ra": "frominner\n", inner + "/rules/REQUEST-123-TEST.conf": rf("OLDINNER")}
				os.RemoveAll(sb)
				t.Materialise(sb)
				args := []string{"-d", filepath.Join(sb, inner), "regex", "update", "123456"}
				if mode == "--all" {
					args[len(args)-1] = "--all"
				}
				rc := core.RunCLI(r.Crs, sb, "", nil, args...)
				a, _ := os.ReadFile(filepath.Join(sb, inner, "rules/REQUEST-123-TEST.conf"))
				b, _ := os.ReadFile(filepath.Join(sb, "outer/rules/REQUEST-123-TEST.conf"))
				emit(offRes{"inner tree " + inner, mode, rc.Exit == 0 && string(a) == rf("frominner") && string(b) == rf("OLDOUTER"),
					fmt.Sprintf("exit %d; inner rules file updated from the inner assembly file: %v; outer rules file untouched: %v", rc.Exit, string(a) == rf("frominner"), string(b) == rf("OLDOUTER"))})
			}
		}
	})
	deaths = append(deaths, d5...)
	offs = append(offs, nested...)
	// a second file in rules/ that carries the id prefix and the rule, sorting before or after the real one: the
	// target is ambiguous, nothing may be written
	sibling, d6 := core.Parallel(r, "sibling", spec, 1, func(in in, shard, n int, emit func(offRes)) {
		sb := filepath.Join(in.Dir, "sibling")
		for _, sib := range []string{"REQUEST-123-TEST-local.conf", "REQUEST-123-TEST.conf.example", "REQUEST-123-ZZZ.conf", "AAA-123-COPY.conf", "REQUEST-123-TEST.conf~"} {
			for _, mode := range []string{"single", "--all"} {
				rf := func(re string) string { return rulesFile(ruleSpec{ID: "123456", Regex: re}) }
				t := core.Tree{"regex-assembly/123456.ra": "fresh\n", "rules/REQUEST-123-TEST.conf": rf("OLD"), "rules/" + sib: rf("OLDSIBLING")}
				os.RemoveAll(sb)
				t.Materialise(sb)
				args := []string{"-d", sb, "regex", "update", "123456"}
				if mode == "--all" {
					args[len(args)-1] = "--all"
				}
				rc := core.RunCLI(r.Crs, sb, "", nil, args...)
				a, _ := os.ReadFile(filepath.Join(sb, "rules/REQUEST-123-TEST.conf"))
				b, _ := os.ReadFile(filepath.Join(sb, "rules", sib))
				// either the command refuses and writes nothing, or it updates the rule's own file and nothing else
				refused := rc.Exit != 0 && string(a) == rf("OLD") && string(b) == rf("OLDSIBLING")
				updated := rc.Exit == 0 && string(a) == rf("fresh") && string(b) == rf("OLDSIBLING")
				emit(offRes{"sibling rules file " + sib, mode, refused || updated, fmt.Sprintf("exit %d; own file %q..., sibling changed: %v", rc.Exit, tailStr(string(a), 40), string(b) != rf("OLDSIBLING"))})
			}
		}
	})
	deaths = append(deaths, d6...)
	offs = append(offs, sibling...)
	// the rules file is a symbolic link, or has a second name (hard link): update rewrites the file, not the directory entry
	links, d7 := core.Parallel(r, "links", spec, 1, func(in in, shard, n int, emit func(offRes)) {
		sb := filepath.Join(in.Dir, "links")
		rf := func(re string) string { return rulesFile(ruleSpec{ID: "123456", Regex: re}) }
		for _, kind := range []string{"symbolic link", "hard link"} {
			for _, mode := range []string{"123456", "--all"} {
				os.RemoveAll(sb)
				t := core.Tree{"regex-assembly/123456.ra": "fresh\n", "shared/rules-123.conf": rf("OLD"), "rules/": ""}
				if kind == "symbolic link" {
					t["rules/REQUEST-123-TEST.conf"] = core.LinkPrefix + "../shared/rules-123.conf"
				}
				t.Materialise(sb)
				name := filepath.Join(sb, "rules/REQUEST-123-TEST.conf")
				if kind == "hard link" {
					os.Link(filepath.Join(sb, "shared/rules-123.conf"), name)
				}
				rc := core.RunCLI(r.Crs, sb, "", nil, "-d", sb, "regex", "update", mode)
				a, _ := os.ReadFile(name)
				b, _ := os.ReadFile(filepath.Join(sb, "shared/rules-123.conf"))
				st, _ := os.Lstat(name)
				stillLink := kind != "symbolic link" || (st != nil && st.Mode()&os.ModeSymlink != 0)
				extra := []string{}
				if es, err := os.ReadDir(filepath.Join(sb, "rules")); err == nil {
					for _, e := range es {
						if e.Name() != "REQUEST-123-TEST.conf" {
							extra = append(extra, e.Name())
						}
					}
				}
				ok := rc.Exit == 0 && string(a) == rf("fresh") && string(b) == rf("fresh") && stillLink && len(extra) == 0
				emit(offRes{"rules file that is a " + kind, mode, ok, fmt.Sprintf("exit %d; through rules/: %q..., the other name: %q..., still a link: %v, other entries in rules/: %v", rc.Exit, tailStr(string(a), 30), tailStr(string(b), 30), stillLink, extra)})
			}
		}
	})
	deaths = append(deaths, d7...)
	offs = append(offs, links...)
	deaths = append(deaths, d4...)
	offs = append(offs, multi...)
	deaths = append(deaths, d3...)
	if r.IsWorker() {
		return
	}
	offRuns := 0
	for _, o := range offs {
		offRuns++
		if !o.Agree {
			r.Report(core.Violation{Clause: "chain-offset-as-written", Key: o.Mode + " chain" + o.K, What: fmt.Sprintf("`regex update` %s with chain offset %q: %s", o.Mode, o.K, o.Why), Detail: o})
		}
	}
	for _, d := range deaths {
		r.HarnessError("worker %s/%d %s on %q: %s", d.Stage, d.Shard, d.Kind, d.Case, tailStr(d.Log, 300))
	}
	validated := 0
	for _, c := range conf {
		if c.Agree {
			validated++
		} else {
			r.Report(core.Violation{Clause: "other-files-untouched", Key: fmt.Sprintf("%+v", c.Case), What: fmt.Sprintf("`regex update` end to end differs from the in-process seam or touches other files: %s", c.Why), Detail: c})
		}
	}
	var tot out
	for _, o := range outs {
		tot.Cases += o.Cases
		tot.Updated += o.Updated
		tot.NoTarget += o.NoTarget
		tot.Fails = append(tot.Fails, o.Fails...)
	}
	blocks := c11Blocks(r.Thorough())
	// minimal failing cases: fewest blocks, LF, final newline, simplest regex first; one per (clause, involved block kinds, regex class, offset)
	rank := func(f c11Fail) int {
		n := len(f.Case.Blocks) * 1000
		if f.Case.CRLF {
			n += 100
		}
		if !f.Case.FinalNL {
			n += 50
		}
		for i, re := range c11Regexes {
			if re == f.Case.Regex {
				n += i
			}
		}
		return n + f.Case.Offset*8
	}
	sort.SliceStable(tot.Fails, func(i, j int) bool { return rank(tot.Fails[i]) < rank(tot.Fails[j]) })
	var reported []c11Fail
	for _, f := range tot.Fails {
		names := func(c c11Case) []string {
			var ns []string
			for _, b := range c.Blocks {
				ns = append(ns, blocks[b].Name)
			}
			return ns
		}
		sub := false
		for _, p := range reported {
			if p.Clause == f.Clause && isSubseq(names(p.Case), names(f.Case)) && p.Case.Target == f.Case.Target && p.Case.Offset == f.Case.Offset &&
				(p.Case.Regex == f.Case.Regex || p.Case.Regex == "foo") && (!p.Case.CRLF || f.Case.CRLF) && (p.Case.FinalNL || !f.Case.FinalNL) {
				sub = true
				break
			}
		}
		if sub {
			continue
		}
		reported = append(reported, f)
		key := fmt.Sprintf("blocks=%q crlf=%v finalnl=%v target=%s offset=%d regex=%q", names(f.Case), f.Case.CRLF, f.Case.FinalNL, f.Case.Target, f.Case.Offset, f.Case.Regex)
		r.Report(core.Violation{Clause: f.Clause, Key: key,
			What:   fmt.Sprintf("update of rule %s offset %d with %q in a file of blocks %q: %s", f.Case.Target, f.Case.Offset, f.Case.Regex, names(f.Case), f.Why),
			Detail: f})
	}
	r.Cov["evaluations"] = tot.Cases
	r.Cov["states"] = tot.Cases
	r.Cov["transitions"] = tot.Cases
	r.Cov["cases_with_target"] = tot.Updated
	r.Cov["cases_without_target"] = tot.NoTarget
	r.Cov["failing_cases"] = len(tot.Fails)
	r.Cov["distinct_nontrivial"] = tot.Updated
	r.Cov["traces_validated_against_impl"] = validated + offRuns
	r.Cov["offset_spelling_runs_cli"] = offRuns
	r.Cov["exhaustive"] = len(deaths) == 0
	r.Cov["bound"] = map[string]any{"block_kinds": len(blocks), "max_blocks": spec.Max, "regexes": c11Regexes, "offsets": "0..3", "variants": "LF/CRLF x final newline (files of 3 blocks: two of the four variants and two regexes; files of 4 blocks: LF with final newline, one regex)"}
	r.Cov["rule"] = "all rules files of <= n blocks over the block kinds (comments incl. ones mentioning id:R, blanks, rules with @rx/!@rx/@pm for ids R, R+1 and a 7-digit id having R as prefix, operands containing \"@rx and \" \\, chains of 1-3 links) x line endings x final newline x every target id (+ an absent one) x offsets 0..3 x new regexes; executed on the real updateRegex (in-process); the generator knows the byte span of every operand, so the expected file is the original with exactly that span replaced, or failure with the file untouched; non-trivial = cases with a target; blocks also cover another rule whose quoted action value mentions the target id, stored operands that start/end with white space, are empty or repeat text of their own line; stage offsets: 35 spellings of the chain offset (leading zeros, values around 2^8, 2^16, 2^32, 2^64) through update --all and update R-chainK with the real CLI"
	r.Cov["samples"] = []any{c11Case{[]int{1, 4}, true, false, c11R, 0, `a\"@rx b`}, c11Case{[]int{26, 10}, false, true, c11R, 2, "foo"}}
	r.Assume = append(r.Assume, "files in which the same rule id occurs twice are outside the model")
}
