package checks

import (
	"fmt"
	"os"
	"path/filepath"
	"regexp"
	"sort"
	"strings"

	"github.com/coreruleset/crs-toolchain/v2/zz_verif/core"
	"github.com/coreruleset/crs-toolchain/v2/zz_verif/inproc"
	"github.com/coreruleset/crs-toolchain/v2/zz_verif/ref"
	"github.com/coreruleset/crs-toolchain/v2/zz_verif/rx"
)

func init() { Registry["C04"] = C04 }

type c04Config struct {
	Name string
	Yaml *string // nil = file absent
	Dir  bool    // toolchain.yaml is a directory
	Cfg  ref.CmdCfg
	Near core.Tree // other files beside the (absent) configuration file: they are not the configuration
}

func sp(s string) *string { return &s }

// six pairwise different CRS-like patterns (written from memory of the CRS file, simplified)
var c04CRS = ref.CmdCfg{
	UnixEvasion:    `[\x5c'\"\[]*(?:\$[a-z0-9_@?!#{*-]*)?(?:\x5c)?`,
	UnixSuffix:     `(?:\s|<|>).*`,
	UnixNoSpace:    `(?:[<>,]|[\w.-][\x5c'\"]*\s).*`,
	WindowsEvasion: `[\"\^]*`,
	WindowsSuffix:  `(?:[\s,;]|\.|/|<|>).*`,
	WindowsNoSpace: `(?:[,;./<>]|[\w-]\s).*`,
}

// suffix patterns that are one group ending the expression (the shape of the current CRS file): `(?:...|$)`
var c04Groups = ref.CmdCfg{
	UnixEvasion:    `[\x5c'\"\[]*`,
	UnixSuffix:     `(?:[\s<>&|),]|$)`,
	UnixNoSpace:    `(?:[<>&|),]|$)`,
	WindowsEvasion: `[\"\^]*`,
	WindowsSuffix:  `(?:[\s,;]|$)`,
	WindowsNoSpace: `(?:[,;]|$)`,
}

// literal blanks and TABs inside the patterns belong to the patterns
var c04Blanks = ref.CmdCfg{
	UnixEvasion:    `[\x5c' ]*`,
	UnixSuffix:     `(?: |<|>).*`,
	UnixNoSpace:    `(?:[<> ,]|x y).*`,
	WindowsEvasion: "[\"\t^]*",
	WindowsSuffix:  `(?:[ ,;]|/).*`,
	WindowsNoSpace: `(?:[,; ]|\w ).*`,
}

func c04YamlPlain(c ref.CmdCfg) string {
	q := func(s string) string { return "'" + strings.ReplaceAll(s, "'", "''") + "'" }
	return "patterns:\n  anti_evasion:\n    unix: " + q(c.UnixEvasion) + "\n    windows: " + q(c.WindowsEvasion) +
		"\n  anti_evasion_suffix:\n    unix: " + q(c.UnixSuffix) + "\n    windows: " + q(c.WindowsSuffix) +
		"\n  anti_evasion_no_space_suffix:\n    unix: " + q(c.UnixNoSpace) + "\n    windows: " + q(c.WindowsNoSpace) + "\n"
}

// block scalars with surrounding blanks and a trailing newline (exercises trimming)
func c04YamlBlock(c ref.CmdCfg) string {
	b := func(s string) string { return "|\n        " + s + "  \n\n" }
	return "patterns:\n  anti_evasion:\n    unix: " + b(c.UnixEvasion) + "    windows: " + b(c.WindowsEvasion) +
		"  anti_evasion_suffix:\n    unix: " + b(c.UnixSuffix) + "    windows: " + b(c.WindowsSuffix) +
		"  anti_evasion_no_space_suffix:\n    unix: " + b(c.UnixNoSpace) + "    windows: " + b(c.WindowsNoSpace)
}

func c04Configs() []c04Config {
	dummy := ref.CmdCfg{UnixEvasion: "_av-u_", UnixSuffix: "_av-u-suffix_", UnixNoSpace: "_av-ns-u-suffix_", WindowsEvasion: "_av-w_", WindowsSuffix: "_av-w-suffix_", WindowsNoSpace: "_av-ns-w-suffix_"}
	return []c04Config{
		{Name: "crs-like", Yaml: sp(c04YamlPlain(c04CRS)), Cfg: c04CRS},
		{Name: "crs-like-block-scalars", Yaml: sp(c04YamlBlock(c04CRS)), Cfg: c04CRS},
		{Name: "dummy-literals", Yaml: sp(c04YamlPlain(dummy)), Cfg: dummy},
		// keys the tool does not know, anywhere in the file, do not make the known ones go away
		{Name: "crs-like-unknown-keys", Yaml: sp("version: 2\nmaintainer: 'someone'\n" + strings.Replace(c04YamlPlain(c04CRS), "patterns:\n", "patterns:\n  future_pattern:\n    unix: 'x'\n    bsd: 'y'\n", 1) + "other_section:\n  key: [1, 2]\n"), Cfg: c04CRS},
		{Name: "patterns-with-blanks-inside", Yaml: sp(c04YamlPlain(c04Blanks)), Cfg: c04Blanks},
		{Name: "suffix-is-one-group", Yaml: sp(c04YamlBlock(c04Groups)), Cfg: c04Groups},
		{Name: "dummy-with-anchors", Yaml: sp("defaults: &d\n  unix: '_av-u_'\n  windows: '_av-w_'\n" + strings.Replace(c04YamlPlain(dummy), "  anti_evasion:\n    unix: '_av-u_'\n    windows: '_av-w_'\n", "  anti_evasion: *d\n", 1)), Cfg: dummy},
		{Name: "empty-file", Yaml: sp("")},
		{Name: "only-unix-evasion", Yaml: sp("patterns:\n  anti_evasion:\n    unix: '[q]*'\n"), Cfg: ref.CmdCfg{UnixEvasion: "[q]*"}},
		{Name: "absent"},
		// files named almost like the configuration file do not stand in for it
		{Name: "absent-with-look-alikes", Near: core.Tree{"regex-assembly/toolchain.yml": c04YamlPlain(dummy), "regex-assembly/toolchain.yaml.bak": c04YamlPlain(dummy),
			"regex-assembly/Toolchain.yaml": c04YamlPlain(dummy), "toolchain.yaml": c04YamlPlain(dummy), "regex-assembly/include/toolchain.yaml": c04YamlPlain(dummy)}},
		// a document that is YAML's null, or only a document marker
		{Name: "null-document", Yaml: sp("---\n")}, {Name: "tilde-document", Yaml: sp("~\n")}, {Name: "null-patterns", Yaml: sp("patterns: ~\n")}, {Name: "null-then-patterns", Yaml: sp("---\n---\n" + c04YamlPlain(dummy))},
		{Name: "invalid-yaml", Yaml: sp("patterns: [unclosed\n  anti_evasion: {{{\n")},
		{Name: "is-a-directory", Dir: true},
	}
}

var c04Chars = []string{"a", "b", "1", ".", "-", "_", " "}
var c04Endings = []string{"", "@", "~", `\@`, `\~`, "~@", "@~"}

type c04Case struct {
	Word     string `json:"word"`
	Shell    string `json:"shell"`
	Template int    `json:"template"`
	Config   string `json:"config"`
}

func c04Program(words []string, shell string, tpl int) string {
	block := "##!> cmdline " + shell + "\n" + strings.Join(words, "\n") + "\n##!<\n"
	switch tpl {
	case 0:
		return block
	case 1:
		return "##!> cmdline " + shell + "\n" + strings.Join(append(append([]string{}, words...), "zz"), "\n") + "\n##!<\n"
	case 2:
		return block + "foo\n"
	case 3:
		return "##!> assemble\n" + block + "##!=>\nx\n##!<\n"
	default:
		// the same word listed again with the other markers (before and after)
		w := words[0]
		base := strings.TrimSuffix(strings.TrimSuffix(strings.TrimSuffix(strings.TrimSuffix(w, `\@`), `\~`), "@"), "~")
		if strings.HasPrefix(w, "'") || base == "" {
			return block
		}
		return "##!> cmdline " + shell + "\n" + base + "@\n" + w + "\n" + base + "~\n" + base + "\n##!<\n"
	}
}

type c04Fail struct {
	Case c04Case     `json:"case"`
	Prog string      `json:"program"`
	Out  string      `json:"out"`
	Ref  string      `json:"ref"`
	Kind string      `json:"kind"`
	W    *rx.Witness `json:"witness,omitempty"`
	Harn string      `json:"harness,omitempty"`
}

type c04Out struct {
	Cases, Equal, PStates, PTrans, Inconclusive int
	Fails                                       []c04Fail
}

func c04Eval(dir string, cfg ref.CmdCfg, c c04Case, st *c04Out) *c04Fail {
	prog := c04Program([]string{c.Word}, c.Shell, c.Template)
	refProg := prog
	if c.Template == 1 || c.Template == 4 {
		refProg = c04Program([]string{c.Word}, c.Shell, 0)
	}
	want, err := ref.Plain(refProg, cfg)
	if err != nil || want == "" {
		return nil
	}
	o := inproc.GenerateFresh(dir, prog)
	if st != nil {
		st.Cases++
	}
	if o.Kind != inproc.OK {
		return &c04Fail{Case: c, Prog: prog, Kind: o.Kind, Out: o.Msg, Ref: want}
	}
	res, confirmed, err := rx.Decide(want, o.Out, rx.Subset, rx.Options{ExcludeVT: true})
	if err != nil {
		return &c04Fail{Case: c, Prog: prog, Kind: "output-not-re2", Out: o.Out, Ref: want}
	}
	if st != nil {
		st.PStates += res.States
		st.PTrans += res.Transitions
		if res.Inconclusive {
			st.Inconclusive++
		}
	}
	if res.Inconclusive || res.Holds {
		return nil
	}
	f := &c04Fail{Case: c, Prog: prog, Out: o.Out, Ref: want, W: res.Witness}
	if !confirmed {
		f.Harn = "witness not confirmed by regexp"
	}
	return f
}

func C04(r *core.Run) {
	dir := ""
	if !r.IsWorker() {
		dir = core.Scratch("c04")
		defer os.RemoveAll(dir)
	}
	maxLen := r.Pick(3, 4)
	if r.Degraded() {
		maxLen = 1
	}
	type in struct {
		Dir    string
		MaxLen int
	}
	mkRoots := func(base string) map[string]string {
		roots := map[string]string{}
		for _, c := range c04Configs() {
			d := filepath.Join(base, c.Name)
			t := core.Tree{"regex-assembly/include/": "", "regex-assembly/exclude/": ""}
			if c.Dir {
				t["regex-assembly/toolchain.yaml/"] = ""
			} else if c.Yaml != nil {
				t["regex-assembly/toolchain.yaml"] = *c.Yaml
			}
			for k, v := range c.Near {
				t[k] = v
			}
			t.Materialise(d)
			roots[c.Name] = d
		}
		return roots
	}
	words := func(maxLen int) []string {
		var ws []string
		enumSeq(len(c04Chars), maxLen, func(_ int, seq []int) {
			w := c19Build(seq, c04Chars, "")
			if w[0] == ' ' {
				return
			}
			for _, e := range c04Endings {
				ws = append(ws, w+e)
			}
		})
		ws = append(ws, `\@`, `\~`, "@", "~", "'a.b", "'[ab]+c", "'a b@", "'", "a'b", "ab'", "''q'", "''", "'a'")
		return ws
	}
	outs, deaths := core.Parallel(r, "sweep", in{dir, maxLen}, r.Workers, func(in in, shard, n int, emit func(c04Out)) {
		roots := mkRoots(filepath.Join(in.Dir, fmt.Sprint("w", shard)))
		var out c04Out
		idx := 0
		for _, w := range words(in.MaxLen) {
			for _, shell := range []string{"unix", "windows"} {
				for tpl := 0; tpl < 5; tpl++ {
					for _, cfg := range c04Configs() {
						if idx++; idx%n != shard {
							continue
						}
						c := c04Case{w, shell, tpl, cfg.Name}
						r.Inflight(fmt.Sprint(c))
						if f := c04Eval(roots[cfg.Name], cfg.Cfg, c, &out); f != nil {
							out.Fails = append(out.Fails, *f)
						}
					}
				}
			}
		}
		emit(out)
	})
	var tot c04Out
	for _, o := range outs {
		tot.Cases += o.Cases
		tot.PStates += o.PStates
		tot.PTrans += o.PTrans
		tot.Inconclusive += o.Inconclusive
		tot.Fails = append(tot.Fails, o.Fails...)
	}
	if r.Abandon() {
		return
	}
	// conformance: every single-character word x ending x shell x config through the real CLI
	type confRes struct {
		Case  c04Case
		Agree bool
		In    string
		Cli   string
	}
	conf, d2 := core.Parallel(r, "conf", in{dir, 1}, r.Workers, func(in in, shard, n int, emit func(confRes)) {
		roots := mkRoots(filepath.Join(in.Dir, fmt.Sprint("c", shard)))
		idx := 0
		for _, w := range words(1) {
			for _, shell := range []string{"unix", "windows"} {
				for _, cfg := range c04Configs() {
					if idx++; idx%n != shard {
						continue
					}
					prog := c04Program([]string{w, "a.b-c d@"}, shell, 3)
					o := inproc.GenerateFresh(roots[cfg.Name], prog)
					cli := core.RunCLI(r.Crs, roots[cfg.Name], prog, nil, "-d", roots[cfg.Name], "regex", "generate", "-")
					emit(confRes{c04Case{w, shell, 3, cfg.Name}, agreeCLI(o, cli), o.String(), cliClass(cli)})
				}
			}
		}
	})
	deaths = append(deaths, d2...)
	// the configuration file named with -f (a name, a sub-path, the default name in a sub-directory) is the one
	// whose patterns are used: same output as with those patterns in the default file
	type fRes struct {
		Flag, Got, Want string
	}
	fOuts, d4 := core.Parallel(r, "fflag", in{dir, 0}, 1, func(in in, shard, n int, emit func(fRes)) {
		base := filepath.Join(in.Dir, "fflag")
		dummy := ref.CmdCfg{UnixEvasion: "_av-u_", UnixSuffix: "_av-u-suffix_", UnixNoSpace: "_av-ns-u-suffix_", WindowsEvasion: "_av-w_", WindowsSuffix: "_av-w-suffix_", WindowsNoSpace: "_av-ns-w-suffix_"}
		refRoot, root := filepath.Join(base, "ref"), filepath.Join(base, "root")
		core.Tree{"regex-assembly/toolchain.yaml": c04YamlPlain(dummy), "regex-assembly/include/": ""}.Materialise(refRoot)
		core.Tree{"regex-assembly/toolchain.yaml": c04YamlPlain(c04CRS), "regex-assembly/alt.yaml": c04YamlPlain(dummy), "regex-assembly/profiles/strict.yaml": c04YamlPlain(dummy),
			"regex-assembly/legacy/toolchain.yaml": c04YamlPlain(dummy), "regex-assembly/include/": ""}.Materialise(root)
		prog := "##!> assemble\n##!> cmdline unix\ncurl@\nls -l\nw~\n##!<\n##!> cmdline windows\ncmd.exe~\ndir@\n##!<\n##!<\n"
		want := core.RunCLI(r.Crs, refRoot, prog, nil, "-d", refRoot, "regex", "generate", "-")
		for _, f := range []string{"alt.yaml", "./alt.yaml", "profiles/strict.yaml", "legacy/toolchain.yaml", "profiles/../alt.yaml"} {
			for _, form := range [][]string{{"-f", f}, {"--configuration", f}, {"--configuration=" + f}} {
				got := core.RunCLI(r.Crs, root, prog, nil, append(append([]string{"-d", root}, form...), "regex", "generate", "-")...)
				emit(fRes{strings.Join(form, " "), fmt.Sprint(got.Exit, " ", got.Stdout), fmt.Sprint(want.Exit, " ", want.Stdout)})
			}
		}
	})
	deaths = append(deaths, d4...)
	// blocks with many entries: every listed word (with the configured evasion text between its characters) must be matched whatever the
	// size of the block (sizes around powers of two and multiples of them)
	type bigRes struct {
		N      int
		Shell  string
		Nested bool
		Missed []string
		Err    string
	}
	bigs, d3 := core.Parallel(r, "large", in{dir, 0}, r.Workers, func(in in, shard, n int, emit func(bigRes)) {
		roots := mkRoots(filepath.Join(in.Dir, fmt.Sprint("l", shard)))
		idx := 0
		for _, size := range []int{63, 64, 65, 127, 128, 129, 255, 256, 257, 300, 511, 512, 513, 520, 1023, 1025} {
			for _, shell := range []string{"unix", "windows"} {
				for _, nested := range []bool{false, true} {
					if idx++; idx%n != shard {
						continue
					}
					var ws []string
					for i := 0; i < size; i++ {
						ws = append(ws, fmt.Sprintf("w%dx", i))
					}
					tpl := 0
					if nested {
						tpl = 3
					}
					prog := c04Program(ws, shell, tpl)
					r.Inflight(fmt.Sprint("large ", size, shell, nested))
					o := inproc.GenerateFresh(roots["dummy-literals"], prog)
					res := bigRes{N: size, Shell: shell, Nested: nested}
					if o.Kind != inproc.OK {
						res.Err = o.Kind + " " + tailStr(o.Msg, 200)
						emit(res)
						continue
					}
					re, err := regexp.Compile(`\A(?:` + o.Out + `)\z`)
					if err != nil {
						res.Err = "output does not compile: " + err.Error()
						emit(res)
						continue
					}
					suffix := ""
					if nested {
						suffix = "x"
					}
					dummy := ref.CmdCfg{UnixEvasion: "_av-u_", WindowsEvasion: "_av-w_"}
					for _, w := range ws {
						// with literal patterns the plain reading of a word of letters and digits is itself a string
						if !re.MatchString(ref.Cmd(w, shell == "windows", dummy) + suffix) {
							res.Missed = append(res.Missed, w)
						}
					}
					emit(res)
				}
			}
		}
	})
	// word sets (2-4 of 8 words with shared beginnings and endings) in a block between two concatenation markers:
	// text before + every word (with the evasion text) + text after must be matched
	sets, d5 := core.Parallel(r, "sets", in{dir, 0}, r.Workers, func(in in, shard, n int, emit func(bigRes)) {
		roots := mkRoots(filepath.Join(in.Dir, fmt.Sprint("s", shard)))
		pool := []string{"curl", "perl", "wget", "who", "cat", "cut", "nc", "ncat"}
		dummy := ref.CmdCfg{UnixEvasion: "_av-u_", UnixSuffix: "_av-u-suffix_", UnixNoSpace: "_av-ns-u-suffix_", WindowsEvasion: "_av-w_", WindowsSuffix: "_av-w-suffix_", WindowsNoSpace: "_av-ns-w-suffix_"}
		idx := 0
		for mask := 1; mask < 1<<len(pool); mask++ {
			var ws []string
			for i, w := range pool {
				if mask&(1<<i) != 0 {
					ws = append(ws, w)
				}
			}
			if len(ws) < 2 || len(ws) > 4 {
				continue
			}
			for _, shell := range []string{"unix", "windows"} {
				for _, tpl := range []string{"sudo:\n##!=>\n%s##!=>\n;\n", "##!> assemble\nsu\ndo\n##!=>\n%s##!<\n", "%s##!=>\nx\ny\n"} {
					if idx++; idx%n != shard {
						continue
					}
					prog := fmt.Sprintf(tpl, "##!> cmdline "+shell+"\n"+strings.Join(ws, "\n")+"\n##!<\n")
					o := inproc.GenerateFresh(roots["dummy-literals"], prog)
					res := bigRes{N: len(ws), Shell: shell}
					if o.Kind != inproc.OK {
						res.Err = prog + ": " + o.Kind + " " + tailStr(o.Msg, 200)
						emit(res)
						continue
					}
					re, err := regexp.Compile(`\A(?:` + o.Out + `)\z`)
					if err != nil {
						res.Err = prog + ": output does not compile: " + err.Error()
						emit(res)
						continue
					}
					pre, post := []string{"sudo:"}, []string{";"}
					switch {
					case strings.HasPrefix(tpl, "##!> assemble"):
						pre, post = []string{"su", "do"}, []string{""}
					case strings.HasPrefix(tpl, "%s"):
						pre, post = []string{""}, []string{"x", "y"}
					}
					for _, w := range ws {
						for _, a := range pre {
							for _, b := range post {
								if !re.MatchString(a + ref.Cmd(w, shell == "windows", dummy) + b) {
									res.Missed = append(res.Missed, a+w+b)
								}
							}
						}
					}
					if len(res.Missed) > 0 {
						res.Err = fmt.Sprintf("program %q generates %q", prog, o.Out)
					}
					emit(res)
				}
			}
		}
		// a word that is the tail of another word of the same block, with every marker, under every configuration:
		// the shared tail is factored out, what stands before it becomes optional - and must stay optional
		for _, pair := range [][2]string{{"sh", "zsh"}, {"cat", "zcat"}, {"grep", "egrep"}, {"c", "nc"}, {"a.b", "1a.b"}} {
			for _, mk := range []string{"", "@", "~"} {
				for _, shell := range []string{"unix", "windows"} {
					for _, cfg := range c04Configs() {
						if cfg.Yaml == nil && cfg.Name != "absent" || cfg.Dir {
							continue
						}
						if idx++; idx%n != shard {
							continue
						}
						for _, order := range [][2]string{{pair[0], pair[1]}, {pair[1], pair[0]}} {
							prog := "##!> cmdline " + shell + "\n" + order[0] + mk + "\n" + order[1] + mk + "\n##!<\n"
							want, err := ref.Plain(prog, cfg.Cfg)
							if err != nil || want == "" {
								continue
							}
							o := inproc.GenerateFresh(roots[cfg.Name], prog)
							res := bigRes{N: 2, Shell: shell}
							if o.Kind != inproc.OK {
								res.Err = prog + " (config " + cfg.Name + "): " + o.Kind + " " + tailStr(o.Msg, 200)
								emit(res)
								continue
							}
							d, _, derr := rx.Decide(want, o.Out, rx.Subset, rx.Options{ExcludeVT: true})
							if derr != nil {
								res.Err = prog + " (config " + cfg.Name + "): output does not parse: " + o.Out
							} else if !d.Inconclusive && !d.Holds {
								res.Missed = []string{fmt.Sprintf("%+v", *d.Witness)}
								res.Err = fmt.Sprintf("program %q (config %s) generates %q, which does not cover the reference %q", prog, cfg.Name, o.Out, want)
							}
							emit(res)
						}
					}
				}
			}
		}
		// two blocks stored under names that share their beginning up to a character that is not a letter, digit, '-'
		// or '_', each used in a group of its own: every word must be matched behind the text of its own group
		for _, names := range [][2]string{{"cmds.unix", "cmds.windows"}, {"shell:sh", "shell:cmd"}, {"unix cmds", "unix tools"}, {"a", "b"}, {"x-1", "x_1"}, {"k", "k2"}, {"é1", "é2"}} {
			for _, ws := range [][2][]string{{{"curl", "wget@"}, {"certutil", "bitsadmin@"}}, {{"who"}, {"dir~"}}} {
				if idx++; idx%n != shard {
					continue
				}
				prog := "##!> assemble\n  ##!> cmdline unix\n" + strings.Join(ws[0], "\n") + "\n  ##!<\n  ##!=< " + names[0] + "\n  ##!> cmdline windows\n" + strings.Join(ws[1], "\n") +
					"\n  ##!<\n  ##!=< " + names[1] + "\n  sh:\n  ##!=>\n  ##!=> " + names[0] + "\n##!<\n##!> assemble\n  cmd:\n  ##!=>\n  ##!=> " + names[1] + "\n##!<\n"
				o := inproc.GenerateFresh(roots["dummy-literals"], prog)
				res := bigRes{N: len(ws[0]) + len(ws[1]), Shell: "both"}
				if o.Kind != inproc.OK {
					res.Err = prog + ": " + o.Kind + " " + tailStr(o.Msg, 200)
					emit(res)
					continue
				}
				re, err := regexp.Compile(`\A(?:` + o.Out + `)\z`)
				if err != nil {
					res.Err = prog + ": output does not compile: " + err.Error()
					emit(res)
					continue
				}
				for i, pre := range []string{"sh:", "cmd:"} {
					for _, w := range ws[i] {
						if !re.MatchString(pre + ref.Cmd(w, i == 1, dummy)) {
							res.Missed = append(res.Missed, pre+w)
						}
					}
				}
				if len(res.Missed) > 0 {
					res.Err = fmt.Sprintf("program %q generates %q", prog, o.Out)
				}
				emit(res)
			}
		}
	})
	deaths = append(deaths, d5...)
	bigs = append(bigs, sets...)
	deaths = append(deaths, d3...)
	if r.IsWorker() {
		return
	}
	for _, f := range fOuts {
		if f.Got != f.Want {
			r.Report(core.Violation{Clause: "config-file-flag", Key: f.Flag, What: fmt.Sprintf("with `%s` the patterns of that file are not the ones used: generated %q, with the same patterns in the default file %q", f.Flag, tailStr(f.Got, 150), tailStr(f.Want, 150)), Detail: f})
		}
	}
	bigRuns := 0
	for _, b := range bigs {
		bigRuns++
		if b.Err != "" || len(b.Missed) > 0 {
			r.Report(core.Violation{Clause: "word-variants-included", Key: fmt.Sprintf("block of %d words shell=%s nested=%v", b.N, b.Shell, b.Nested),
				What: fmt.Sprintf("cmdline %s block of %d words (nested in an assemble block: %v): %d words are not matched by the generated regex (first: %q) %s", b.Shell, b.N, b.Nested, len(b.Missed), firstOf(b.Missed), b.Err), Detail: b})
		}
	}
	for _, d := range deaths {
		r.HarnessError("worker %s/%d %s on %q: %s", d.Stage, d.Shard, d.Kind, d.Case, tailStr(d.Log, 300))
	}
	validated := 0
	for _, c := range conf {
		if c.Agree {
			validated++
		} else {
			r.HarnessError("in-process and CLI disagree on %v: %s vs %s", c.Case, c.In, c.Cli)
		}
	}
	if r.Abandon() {
		return
	}
	// minimise the word of each failing case (drop characters while it still fails) and deduplicate
	cfgs := map[string]c04Config{}
	for _, c := range c04Configs() {
		cfgs[c.Name] = c
	}
	roots := mkRoots(filepath.Join(dir, "shrink"))
	seen := map[string]bool{}
	sort.Slice(tot.Fails, func(i, j int) bool { return len(tot.Fails[i].Case.Word) < len(tot.Fails[j].Case.Word) })
	for _, f := range tot.Fails {
		if f.Harn != "" {
			r.HarnessError("%s: %+v", f.Harn, f)
			continue
		}
		c := f.Case
		best := f
		for changed := true; changed; {
			changed = false
			for i := 0; i < len(c.Word); i++ {
				q := c
				q.Word = c.Word[:i] + c.Word[i+1:]
				if q.Word == "" || q.Word[0] == ' ' {
					continue
				}
				if g := c04Eval(roots[q.Config], cfgs[q.Config].Cfg, q, nil); g != nil && g.Harn == "" {
					c, best, changed = q, *g, true
					break
				}
			}
		}
		key := fmt.Sprintf("word=%q shell=%s template=%d config=%s", c.Word, c.Shell, c.Template, c.Config)
		if seen[key] {
			continue
		}
		seen[key] = true
		clause := "word-variants-included"
		if strings.HasPrefix(c.Word, "'") {
			clause = "verbatim-line"
		}
		what := fmt.Sprintf("cmdline %s word %q (config %s, template %d): generated %q does not cover the reference %q", c.Shell, c.Word, c.Config, c.Template, best.Out, best.Ref)
		if best.W != nil {
			what += fmt.Sprintf("; missing variant %q (left %q right %q)", best.W.Text, best.W.Left, best.W.Right)
		}
		if best.Kind != "" {
			what = fmt.Sprintf("cmdline %s word %q (config %s, template %d) does not compile: %s %s", c.Shell, c.Word, c.Config, c.Template, best.Kind, best.Out)
		}
		r.Report(core.Violation{Clause: clause, Key: key, What: what, Detail: best, Repro: reproGenerate(best.Prog)})
	}
	r.Cov["evaluations"] = tot.Cases
	r.Cov["states"] = tot.PStates
	r.Cov["transitions"] = tot.PTrans
	r.Cov["inconclusive_pairs"] = tot.Inconclusive
	r.Cov["distinct_nontrivial"] = tot.Cases
	r.Cov["failing_cases"] = len(tot.Fails)
	r.Cov["large_blocks"] = bigRuns
	r.Cov["traces_validated_against_impl"] = validated
	r.Cov["exhaustive"] = tot.Inconclusive == 0 && len(deaths) == 0
	r.Cov["bound"] = map[string]any{"word_len": maxLen, "chars": c04Chars, "endings": c04Endings, "templates": 5, "configs": len(c04Configs()), "shells": 2}
	r.Cov["rule"] = "all words of <= word_len characters over the character set x endings x {unix, windows} x 4 templates x all configurations (+ verbatim lines); oracle: language of the reference expansion of the word (every evasion string of the configured patterns at once) is included in the generated regex, decided by product-automaton search; states/transitions = product states/transitions; every case is distinct and non-trivial (a word is always rewritten); stage large: blocks of 63..1025 words (both shells, top level and nested) in which every word with the configured evasion text must be matched; configurations include files with unknown keys and YAML anchors"
	r.Cov["samples"] = []any{c04Case{"a.b@", "unix", 3, "crs-like"}, c04Case{`a -\~`, "windows", 1, "crs-like-block-scalars"}, c04Case{"'[ab]+c", "unix", 2, "absent"}}
	r.Assume = append(r.Assume, "expected patterns per configuration are known to the generator (the YAML is written from them), the model never parses YAML",
		"inclusion (not equality) is demanded: the property only says every variant is matched")
}

func firstOf(xs []string) string {
	if len(xs) == 0 {
		return ""
	}
	return xs[0]
}
