package checks

import (
	"fmt"
	"os"
	"sort"
	"strings"
	"unicode/utf8"

	"github.com/coreruleset/crs-toolchain/v2/zz_verif/core"
	"github.com/coreruleset/crs-toolchain/v2/zz_verif/inproc"
	"github.com/coreruleset/crs-toolchain/v2/zz_verif/rx"
)

// progCheck is the shared driver of the program-space checks (C01, C02, ...):
// sweep the space in sharded single-goroutine workers, shrink every failing
// program to its minimal case, validate the in-process seam against the CLI on
// a completely enumerated lower bound, and report minimal cases.
type progCheck struct {
	Name     string
	Spec     sweepSpec
	ConfSpec sweepSpec
	Tree     core.Tree
	Eval     func(root *inproc.Root, p Prog, st *pcStats) *pcFail
	Extra    func(shard, n int, root *inproc.Root, visit func(stratum string, p Prog)) // further strata
}

type pcFail struct {
	Stratum string      `json:"stratum"`
	P       Prog        `json:"prog"`
	Clause  string      `json:"clause"`
	Out     string      `json:"out"`
	Ref     string      `json:"ref,omitempty"`
	Kind    string      `json:"kind,omitempty"`
	W       *rx.Witness `json:"witness,omitempty"`
	Harness string      `json:"harness,omitempty"`
}

type pcStats struct {
	Programs, Outside, Nontrivial, Inconclusive int
	PStates, PTrans                             int
	ByStratum                                   map[string]int
	Fails                                       int
	Outputs                                     map[string]bool `json:"-"`
}

type pcIn struct {
	Dir  string
	Spec sweepSpec
}

type pcOut struct {
	Stats pcStats
	Fails []pcFail
}

type pcMin struct {
	Clause string `json:"clause"`
	Key    string `json:"key"`
	Min    pcFail `json:"min"`
	Count  int    `json:"count"`
}

type pcResult struct {
	Stats     pcStats
	Mins      []*pcMin
	Validated int
	Dir       string
	Deaths    []core.Death
}

func (pc progCheck) run(r *core.Run) (res pcResult, cleanup func()) {
	dir := ""
	cleanup = func() {}
	if !r.IsWorker() {
		dir = core.Scratch(strings.ToLower(pc.Name))
		cleanup = func() { os.RemoveAll(dir) }
		pc.Tree.Materialise(dir)
	}
	res.Dir = dir
	in := pcIn{Dir: dir, Spec: pc.Spec}
	outs, deaths := core.Parallel(r, "sweep", in, r.Workers, func(in pcIn, shard, n int, emit func(pcOut)) {
		root := inproc.NewRoot(in.Dir)
		out := pcOut{Stats: pcStats{ByStratum: map[string]int{}}}
		visit := func(stratum string, p Prog) {
			r.Inflight(p.Text())
			out.Stats.ByStratum[stratum]++
			if f := pc.Eval(root, p, &out.Stats); f != nil {
				f.Stratum = stratum
				out.Stats.Fails++
				out.Fails = append(out.Fails, *f)
				if len(out.Fails) >= 2000 {
					emit(out)
					out.Fails = nil
					out.Stats = pcStats{ByStratum: map[string]int{}}
				}
			}
		}
		in.Spec.programs(shard, n, visit)
		if in.Spec.Mixed {
			idx := 0
			for _, e := range enumEntriesFlags(in.Spec.Tokens, in.Spec.One, in.Spec.Flags) {
				if idx++; idx%n != shard {
					continue
				}
				text := strings.Join(e, "")
				o := root.Generate(text + "\n")
				if o.Kind != inproc.OK || o.Out == text {
					continue
				}
				for _, lines := range mixedPositions(e) {
					visit("C", Prog{Lines: lines})
				}
			}
		}
		if pc.Extra != nil {
			pc.Extra(shard, n, root, visit)
		}
		emit(out)
	})
	if r.Abandon() {
		return res, cleanup
	}
	st := pcStats{ByStratum: map[string]int{}}
	var fails []pcFail
	for _, o := range outs {
		st.Programs += o.Stats.Programs
		st.Outside += o.Stats.Outside
		st.Nontrivial += o.Stats.Nontrivial
		st.Inconclusive += o.Stats.Inconclusive
		st.PStates += o.Stats.PStates
		st.PTrans += o.Stats.PTrans
		st.Fails += o.Stats.Fails
		for k, v := range o.Stats.ByStratum {
			st.ByStratum[k] += v
		}
		fails = append(fails, o.Fails...)
	}
	sort.Slice(fails, func(i, j int) bool {
		a, b := fails[i].P.Text(), fails[j].P.Text()
		if len(a) != len(b) {
			return len(a) < len(b)
		}
		return a < b
	})
	type shrinkIn struct {
		Dir   string
		Fails []pcFail
	}
	mins, d2 := core.Parallel(r, "shrink", shrinkIn{dir, fails}, r.Workers, func(in shrinkIn, shard, n int, emit func(pcMin)) {
		root := inproc.NewRoot(in.Dir)
		cache := map[string]*pcFail{}
		acc := map[string]*pcMin{}
		for i, f := range in.Fails {
			if i%n != shard {
				continue
			}
			r.Inflight("shrink:" + f.P.Text())
			var last *pcFail
			fails := func(q Prog) bool {
				t := q.Text()
				g, ok := cache[t]
				if !ok {
					g = pc.Eval(root, q, nil)
					cache[t] = g
				}
				if g != nil && g.Clause == f.Clause && g.Harness == "" {
					last = g
					return true
				}
				return false
			}
			if !fails(f.P) {
				emit(pcMin{Clause: "harness", Key: f.P.Text(), Min: f})
				continue
			}
			m := shrinkProg(f.P, validProg, fails)
			fails(m)
			key := m.Text()
			if mc := acc[f.Clause+"\x00"+key]; mc != nil {
				mc.Count++
			} else {
				acc[f.Clause+"\x00"+key] = &pcMin{Clause: f.Clause, Key: key, Min: *last, Count: 1}
			}
		}
		for _, mc := range acc {
			emit(*mc)
		}
	})
	deaths = append(deaths, d2...)
	type confRes struct {
		Text, In, Cli string
		Agree         bool
	}
	conf, d3 := core.Parallel(r, "conf", pcIn{Dir: dir, Spec: pc.ConfSpec}, r.Workers, func(in pcIn, shard, n int, emit func(confRes)) {
		root := inproc.NewRoot(in.Dir)
		in.Spec.programs(shard, n, func(_ string, p Prog) {
			t := p.Text()
			o := root.Generate(t)
			cli := core.RunCLI(r.Crs, in.Dir, t, nil, "-d", in.Dir, "regex", "generate", "-")
			emit(confRes{t, o.String(), cliClass(cli), agreeCLI(o, cli)})
		})
	})
	deaths = append(deaths, d3...)
	res.Deaths = deaths
	if r.IsWorker() {
		return res, cleanup
	}
	nd := 0
	for _, c := range conf {
		if c.Agree {
			res.Validated++
		} else if nd++; nd <= 5 {
			r.HarnessError("in-process and CLI disagree on %q: %s vs %s", c.Text, c.In, c.Cli)
		}
	}
	for _, d := range deaths {
		r.HarnessError("worker %s/%d %s on %q: %s", d.Stage, d.Shard, d.Kind, d.Case, tailStr(d.Log, 300))
	}
	merged := map[string]*pcMin{}
	for _, m := range mins {
		m := m
		if m.Clause == "harness" {
			r.HarnessError("failing case not reproducible: %q", m.Key)
			continue
		}
		if m.Min.Harness != "" {
			r.HarnessError("%s", m.Min.Harness)
			continue
		}
		k := m.Clause + "\x00" + m.Key
		if e := merged[k]; e != nil {
			e.Count += m.Count
		} else {
			merged[k] = &m
		}
	}
	for _, m := range merged {
		// the minimal case must behave identically through the real CLI
		cli := core.RunCLI(r.Crs, dir, m.Key, nil, "-d", dir, "regex", "generate", "-")
		if m.Min.Kind == "" && (cli.Exit != 0 || cli.Stdout != m.Min.Out && jsonSafe(cli.Stdout) != m.Min.Out) {
			r.HarnessError("minimal case %q: CLI gives %q exit %d, in-process %q", m.Key, cli.Stdout, cli.Exit, m.Min.Out)
			continue
		}
		res.Mins = append(res.Mins, m)
	}
	sort.Slice(res.Mins, func(i, j int) bool { return res.Mins[i].Key < res.Mins[j].Key })
	res.Stats = st
	r.Cov["evaluations"] = st.Programs
	r.Cov["programs_by_stratum"] = st.ByStratum
	r.Cov["outside_model"] = st.Outside
	r.Cov["distinct_nontrivial"] = st.Nontrivial
	r.Cov["failing_programs"] = st.Fails
	r.Cov["minimal_cases"] = len(merged)
	r.Cov["traces_validated_against_impl"] = res.Validated
	r.Cov["exhaustive"] = st.Inconclusive == 0 && len(deaths) == 0
	r.Cov["bound"] = pc.Spec
	return res, cleanup
}

func reproGenerate(text string) []string {
	return []string{fmt.Sprintf("printf %%s %s | crs-toolchain -d <root> regex generate -", core.ShellQuote(text))}
}

// jsonSafe is what a string looks like after a round trip through encoding/json (workers report
// their results as JSON): every byte that is not part of valid UTF-8 becomes U+FFFD.
func jsonSafe(s string) string {
	var sb strings.Builder
	for i := 0; i < len(s); {
		r, w := utf8.DecodeRuneInString(s[i:])
		if r == utf8.RuneError && w == 1 {
			sb.WriteString("\uFFFD")
		} else {
			sb.WriteString(s[i : i+w])
		}
		i += w
	}
	return sb.String()
}
