//go:build verif_noshim

package inproc

// ShimAvailable is false in the fallback build: a change to the repository renamed or re-typed one of the
// private functions the export shim wraps, so the command-level seams go through the real CLI instead.
const ShimAvailable = false

func formatIn(r *Root, filePath string, check bool) CmdResult { panic("unreachable") }
func updateIn(r *Root, arg string) CmdResult                  { panic("unreachable") }
func compareIn(r *Root, arg string, github bool) CmdResult    { panic("unreachable") }
func compareAllIn(r *Root, github bool) CmdResult             { panic("unreachable") }
func updateAllIn(r *Root) CmdResult                           { panic("unreachable") }
func updateRegexIn(path, ruleID string, offset uint8, newRegex string) Outcome {
	return Outcome{Kind: "unavailable"}
}
