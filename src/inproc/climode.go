package inproc

import (
	"bytes"
	"context"
	"os"
	"os/exec"
	"path/filepath"
	"strings"
	"time"
)

// Degraded mode: every seam of this package spawns the real CLI (a fresh process
// per invocation) instead of calling the repository code in-process. Used when the
// in-process seam is found to be unfaithful (the code under test keeps state
// between runs in one process), at reduced bounds.
var CLIMode = os.Getenv("VT_DEGRADED") == "1"

// CrsPath is the plain CLI binary built from the working tree.
var CrsPath = filepath.Join(os.Getenv("VERIF_BUILD"), "crs")

type cliRes struct {
	stdout, stderr string
	exit           int
}

func runCLI(dir, stdin string, args ...string) cliRes {
	ctx, cancel := context.WithTimeout(context.Background(), 60*time.Second)
	defer cancel()
	c := exec.CommandContext(ctx, CrsPath, args...)
	c.Dir = dir
	c.Env = []string{"CI=true", "HOME=" + dir, "PATH=/usr/bin:/bin", "NO_COLOR=1"}
	c.Stdin = strings.NewReader(stdin)
	var so, se bytes.Buffer
	c.Stdout, c.Stderr = &so, &se
	err := c.Run()
	r := cliRes{stdout: so.String(), stderr: se.String()}
	if err != nil {
		r.exit = 1
		if ee, ok := err.(*exec.ExitError); ok {
			r.exit = ee.ExitCode()
		}
		if ctx.Err() != nil {
			r.exit = -1
		}
	}
	return r
}

func (c cliRes) outcome() Outcome {
	switch {
	case c.exit == 0:
		return Outcome{Kind: OK, Out: c.stdout}
	case strings.Contains(c.stderr, "runtime error"):
		return Outcome{Kind: Runtime, Msg: tail(c.stderr, 200), Site: "cli"}
	case c.exit == 2:
		return Outcome{Kind: Panic, Msg: tail(c.stderr, 200)}
	case c.exit == -1:
		return Outcome{Kind: Other, Msg: "timeout"}
	default:
		return Outcome{Kind: Fatal, Msg: tail(c.stderr, 200)}
	}
}

func (c cliRes) cmdResult() CmdResult {
	o := c.outcome()
	o.Out = ""
	if o.Kind == Fatal {
		o.Kind = Error
	}
	return CmdResult{o, c.stdout}
}

func tail(s string, n int) string {
	if len(s) > n {
		return s[len(s)-n:]
	}
	return s
}

func cliGenerate(dir, text string) Outcome {
	return runCLI(dir, text, "-d", dir, "regex", "generate", "-").outcome()
}

// cliFormatArg derives the CLI argument addressing a file below regex-assembly.
func cliFormatArg(dir, filePath string) string {
	rel, _ := filepath.Rel(filepath.Join(dir, "regex-assembly"), filePath)
	rel = strings.TrimPrefix(rel, "include/")
	return strings.TrimSuffix(rel, ".ra")
}

// Sentinel runs a fixed list of probe programs and returns their outcomes; the
// probes repeat includes, include-except/suffix pairs, marked cmdline words and
// definitions, i.e. everything a process-level cache could get wrong on reuse.
func Sentinel(dir string, cli bool) string {
	probes := []string{
		"##!> include sprobe\n##!=>\n##!> include sprobe\n",
		"##!> include-except sprobe sex -- a b\n",
		"##!> include sprobe\n",
		"##!> include sprobe -- a q\n",
		"##!> include sprobe\nzz\n",
		"##!> cmdline unix\ncurl@\nwget~\n##!<\n",
		"##!> cmdline unix\ncurl\nwget@\ncurl~\n##!<\n",
		"##!> define d one\n{{d}}x\n",
		"##!> define d two\n{{d}}x\n{{e}}\n",
		"a\n##!=< s\nb\n##!=> s\n",
		"c\n##!=> s\n",
		"##!+ i\n##!^ p\n##!$ q\nmid\n",
		"plain|entry\n",
	}
	os.MkdirAll(filepath.Join(dir, "regex-assembly/include"), 0o755)
	os.MkdirAll(filepath.Join(dir, "regex-assembly/exclude"), 0o755)
	os.WriteFile(filepath.Join(dir, "regex-assembly/include/sprobe.ra"), []byte("##!$ s+\nxa\nyb\nxa\nzc\n"), 0o644)
	os.WriteFile(filepath.Join(dir, "regex-assembly/exclude/sex.ra"), []byte("yb\n"), 0o644)
	os.WriteFile(filepath.Join(dir, "regex-assembly/toolchain.yaml"), []byte("patterns:\n  anti_evasion:\n    unix: '[q]*'\n  anti_evasion_suffix:\n    unix: '\\s'\n  anti_evasion_no_space_suffix:\n    unix: 'n'\n"), 0o644)
	var sb strings.Builder
	for _, p := range probes {
		var o Outcome
		if cli {
			o = cliGenerate(dir, p)
		} else {
			o = inprocGenerateFresh(dir, p)
		}
		if o.Kind == OK {
			sb.WriteString("ok:" + o.Out + "\n")
		} else {
			sb.WriteString("fail\n")
		}
	}
	return sb.String()
}
