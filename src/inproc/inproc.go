// Package inproc drives the repository's code in-process (the fast seam).
// Every call classifies how the code ended: regex, returned error, deliberate
// logger.Fatal (patched zerolog panics with VerifFatalExit), deliberate
// logger.Panic (panics with a string) or a runtime fault.
package inproc

import (
	"fmt"
	"runtime"
	"strings"

	"github.com/rs/zerolog"

	"github.com/coreruleset/crs-toolchain/v2/configuration"
	crsctx "github.com/coreruleset/crs-toolchain/v2/context"
	"github.com/coreruleset/crs-toolchain/v2/regex/operators"
	"github.com/coreruleset/crs-toolchain/v2/regex/processors"
)

func init() {
	// Trace logging is on by default when the repo's logger package is not linked.
	zerolog.SetGlobalLevel(zerolog.Disabled)
}

const (
	OK      = "ok"      // regex produced
	Error   = "error"   // error returned (CLI: Fatal -> exit 1)
	Fatal   = "fatal"   // logger.Fatal reached (exit 1)
	Panic   = "panic"   // logger.Panic reached (deliberate diagnostic, exit 2)
	Runtime = "runtime" // runtime.Error: index out of range, nil dereference, ...
	Other   = "other"   // panic with an unexpected value
)

type Outcome struct {
	Kind string `json:"kind"`
	Out  string `json:"out,omitempty"`
	Msg  string `json:"msg,omitempty"`
	Site string `json:"site,omitempty"` // innermost repository frame of a runtime fault
}

func (o Outcome) Failed() bool { return o.Kind != OK }

// Same reports whether two outcomes are the same observable result.
func (o Outcome) Same(p Outcome) bool {
	if o.Kind == OK || p.Kind == OK {
		return o.Kind == p.Kind && o.Out == p.Out
	}
	return true // both failed
}

func (o Outcome) String() string {
	if o.Kind == OK {
		return "ok:" + o.Out
	}
	return o.Kind
}

// Guard runs f and classifies panics.
func Guard(f func() (string, error)) (res Outcome) {
	defer func() {
		if x := recover(); x != nil {
			switch v := x.(type) {
			case zerolog.VerifFatalExit:
				res = Outcome{Kind: Fatal}
			case runtime.Error:
				res = Outcome{Kind: Runtime, Msg: v.Error(), Site: repoFrame()}
			case string:
				res = Outcome{Kind: Panic, Msg: v}
			default:
				res = Outcome{Kind: Other, Msg: fmt.Sprint(x), Site: repoFrame()}
			}
		}
	}()
	out, err := f()
	if err != nil {
		return Outcome{Kind: Error, Msg: err.Error()}
	}
	return Outcome{Kind: OK, Out: out}
}

const modPrefix = "github.com/coreruleset/crs-toolchain/v2/"

func repoFrame() string {
	pcs := make([]uintptr, 64)
	n := runtime.Callers(3, pcs)
	frames := runtime.CallersFrames(pcs[:n])
	for {
		f, more := frames.Next()
		if strings.HasPrefix(f.Function, modPrefix) && !strings.Contains(f.Function, "/zz_verif/") {
			return strings.TrimPrefix(f.Function, modPrefix)
		}
		if !more {
			break
		}
	}
	return "?"
}

// Root is a CRS root whose configuration is loaded once.
type Root struct {
	Dir string
	ctx *crsctx.Context
}

// NewRoot loads toolchain.yaml exactly like the CLI does.
func NewRoot(dir string) *Root {
	return &Root{Dir: dir, ctx: crsctx.New(dir, "toolchain.yaml")}
}

// NewRootWithConfig uses an explicit configuration (no file access).
func NewRootWithConfig(dir string, cfg *configuration.Configuration) *Root {
	return &Root{Dir: dir, ctx: crsctx.NewWithConfiguration(dir, cfg)}
}

func (r *Root) Context() *crsctx.Context { return r.ctx }

// Generate is exactly what `regex generate` computes for the given text.
func (r *Root) Generate(text string) Outcome {
	return Guard(func() (string, error) {
		ctxt := processors.NewContext(r.ctx)
		return operators.NewAssembler(ctxt).Run(text)
	})
}

// GenerateFresh reloads the configuration from disk first (what each CLI run does).
func GenerateFresh(dir, text string) Outcome {
	return Guard(func() (string, error) {
		ctxt := processors.NewContext(crsctx.New(dir, "toolchain.yaml"))
		return operators.NewAssembler(ctxt).Run(text)
	})
}
