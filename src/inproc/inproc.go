// Package inproc drives the repository's code in-process (the fast seam).
// Every call classifies how the code ended: regex, returned error, deliberate
// logger.Fatal (patched zerolog panics with VerifFatalExit), deliberate
// logger.Panic (panics with a string) or a runtime fault.
package inproc

import (
	"fmt"
	"os"
	"runtime"
	"strings"
	"syscall"
	"time"

	"github.com/rs/zerolog"

	"github.com/coreruleset/crs-toolchain/v2/configuration"
	crsctx "github.com/coreruleset/crs-toolchain/v2/context"
	"github.com/coreruleset/crs-toolchain/v2/regex/operators"
	"github.com/coreruleset/crs-toolchain/v2/regex/processors"
)

func init() {
	// Trace logging is on by default when the repo's logger package is not linked.
	zerolog.SetGlobalLevel(zerolog.Disabled)
}

const (
	OK      = "ok"      // regex produced
	Error   = "error"   // error returned (CLI: Fatal -> exit 1)
	Fatal   = "fatal"   // logger.Fatal reached (exit 1)
	Panic   = "panic"   // logger.Panic reached (deliberate diagnostic, exit 2)
	Runtime = "runtime" // runtime.Error: index out of range, nil dereference, ...
	Other   = "other"   // panic with an unexpected value
)

type Outcome struct {
	Kind string `json:"kind"`
	Out  string `json:"out,omitempty"`
	Msg  string `json:"msg,omitempty"`
	Site string `json:"site,omitempty"` // innermost repository frame of a runtime fault
}

func (o Outcome) Failed() bool { return o.Kind != OK }

// Same reports whether two outcomes are the same observable result.
func (o Outcome) Same(p Outcome) bool {
	if o.Kind == OK || p.Kind == OK {
		return o.Kind == p.Kind && o.Out == p.Out
	}
	return true // both failed
}

func (o Outcome) String() string {
	if o.Kind == OK {
		return "ok:" + o.Out
	}
	return o.Kind
}

// Guard runs f and classifies panics.
func Guard(f func() (string, error)) Outcome {
	res := guardOnce(f)
	if res.Kind != OK && fdPressure() {
		// the repository never closes the files it includes; a long-lived worker depends on finalizers to get the
		// descriptors back. A failure while the table is nearly full says nothing about the input: collect and repeat.
		relieveFDs()
		res = guardOnce(f)
	}
	return res
}

// fdPressure: more than half of the descriptor limit is in use (or the table cannot even be read).
func fdPressure() bool {
	var lim syscall.Rlimit
	if syscall.Getrlimit(syscall.RLIMIT_NOFILE, &lim) != nil {
		return false
	}
	es, err := os.ReadDir("/proc/self/fd")
	return err != nil || uint64(len(es)) > lim.Cur/2
}

func relieveFDs() {
	for i := 0; i < 20; i++ {
		runtime.GC()
		time.Sleep(2 * time.Millisecond) // finalizers run on their own goroutine
		if !fdPressure() {
			return
		}
	}
}

func guardOnce(f func() (string, error)) (res Outcome) {
	defer func() {
		if x := recover(); x != nil {
			switch v := x.(type) {
			case zerolog.VerifFatalExit:
				res = Outcome{Kind: Fatal}
			case runtime.Error:
				res = Outcome{Kind: Runtime, Msg: v.Error(), Site: repoFrame()}
			case zerolog.VerifPanic:
				res = Outcome{Kind: Panic, Msg: string(v)}
			case string:
				// a Go panic with a string value that is not the logger's: misuse of a library type, an explicit panic
				res = Outcome{Kind: Other, Msg: v, Site: repoFrame()}
			default:
				res = Outcome{Kind: Other, Msg: fmt.Sprint(x), Site: repoFrame()}
			}
		}
	}()
	out, err := f()
	if err != nil {
		return Outcome{Kind: Error, Msg: err.Error()}
	}
	return Outcome{Kind: OK, Out: out}
}

const modPrefix = "github.com/coreruleset/crs-toolchain/v2/"

func repoFrame() string {
	pcs := make([]uintptr, 64)
	n := runtime.Callers(3, pcs)
	frames := runtime.CallersFrames(pcs[:n])
	for {
		f, more := frames.Next()
		if strings.HasPrefix(f.Function, modPrefix) && !strings.Contains(f.Function, "/zz_verif/") {
			return strings.TrimPrefix(f.Function, modPrefix)
		}
		if !more {
			break
		}
	}
	return "?"
}

// Root is a CRS root whose configuration is loaded once.
type Root struct {
	Dir string
	ctx *crsctx.Context
}

// NewRoot loads toolchain.yaml exactly like the CLI does.
func NewRoot(dir string) *Root {
	return &Root{Dir: dir, ctx: crsctx.New(dir, "toolchain.yaml")}
}

// NewRootWithConfig uses an explicit configuration (no file access).
func NewRootWithConfig(dir string, cfg *configuration.Configuration) *Root {
	return &Root{Dir: dir, ctx: crsctx.NewWithConfiguration(dir, cfg)}
}

func (r *Root) Context() *crsctx.Context { return r.ctx }

// Generate is exactly what `regex generate` computes for the given text.
func (r *Root) Generate(text string) Outcome {
	if CLIMode {
		return cliGenerate(r.Dir, text)
	}
	return Guard(func() (string, error) {
		ctxt := processors.NewContext(r.ctx)
		return operators.NewAssembler(ctxt).Run(text)
	})
}

// GenerateFresh reloads the configuration from disk first (what each CLI run does).
func GenerateFresh(dir, text string) Outcome {
	if CLIMode {
		return cliGenerate(dir, text)
	}
	return inprocGenerateFresh(dir, text)
}

func inprocGenerateFresh(dir, text string) Outcome {
	return Guard(func() (string, error) {
		ctxt := processors.NewContext(crsctx.New(dir, "toolchain.yaml"))
		return operators.NewAssembler(ctxt).Run(text)
	})
}

// ---- command-level seams (package cmd, through the export shim) ----

// captureStdout runs f with os.Stdout redirected into a (reused) file and returns what was printed.
var capFile *os.File

func captureStdout(f func()) string {
	if capFile == nil {
		tmp, err := os.CreateTemp("", "vt-stdout-*")
		if err != nil {
			panic(err)
		}
		os.Remove(tmp.Name())
		capFile = tmp
	}
	capFile.Truncate(0)
	capFile.Seek(0, 0)
	old := os.Stdout
	os.Stdout = capFile
	func() {
		defer func() { os.Stdout = old }()
		f()
	}()
	n, _ := capFile.Seek(0, 1)
	if n == 0 {
		return ""
	}
	b := make([]byte, n)
	capFile.ReadAt(b, 0)
	return string(b)
}

// CmdResult is the observable result of one in-process command: printed text and how it ended.
type CmdResult struct {
	Outcome
	Stdout string `json:"stdout,omitempty"`
}

func (c CmdResult) Obs() string { return c.Kind + "\x00" + c.Out + "\x00" + c.Stdout }

func runCmd(f func() (string, error)) CmdResult {
	var o Outcome
	so := captureStdout(func() { o = Guard(f) })
	return CmdResult{o, so}
}

// Format is `regex format <file>` (check=false) or `regex format --check <file>`.
func (r *Root) Format(filePath string, check bool) CmdResult {
	if CLIMode || !ShimAvailable {
		args := []string{"-d", r.Dir, "regex", "format"}
		if check {
			args = append(args, "--check")
		}
		return runCLI(r.Dir, "", append(args, cliFormatArg(r.Dir, filePath))...).cmdResult()
	}
	return formatIn(r, filePath, check)
}

// Update is `regex update <arg>`.
func (r *Root) Update(arg string) CmdResult {
	if CLIMode || !ShimAvailable {
		return runCLI(r.Dir, "", "-d", r.Dir, "regex", "update", arg).cmdResult()
	}
	return updateIn(r, arg)
}

// Compare is `regex compare <arg>`.
func (r *Root) Compare(arg string, github bool) CmdResult {
	if CLIMode || !ShimAvailable {
		args := []string{"-d", r.Dir}
		if github {
			args = append(args, "-o", "github")
		}
		return runCLI(r.Dir, "", append(args, "regex", "compare", arg)...).cmdResult()
	}
	return compareIn(r, arg, github)
}

// CompareAll is `regex compare --all`.
func (r *Root) CompareAll(github bool) CmdResult {
	if CLIMode || !ShimAvailable {
		args := []string{"-d", r.Dir}
		if github {
			args = append(args, "-o", "github")
		}
		return runCLI(r.Dir, "", append(args, "regex", "compare", "--all")...).cmdResult()
	}
	return compareAllIn(r, github)
}

// UpdateAll is `regex update --all`.
func (r *Root) UpdateAll() CmdResult {
	if CLIMode || !ShimAvailable {
		return runCLI(r.Dir, "", "-d", r.Dir, "regex", "update", "--all").cmdResult()
	}
	return updateAllIn(r)
}

// UpdateRegexFile calls the private updateRegex directly (Kind "unavailable" when the export shim does not compile).
func UpdateRegexFile(path, ruleID string, offset uint8, newRegex string) Outcome {
	if !ShimAvailable {
		return Outcome{Kind: "unavailable"}
	}
	return updateRegexIn(path, ruleID, offset, newRegex)
}
