//go:build !verif_noshim

package inproc

import (
	"github.com/coreruleset/crs-toolchain/v2/cmd"
	crsctx "github.com/coreruleset/crs-toolchain/v2/context"
	"github.com/coreruleset/crs-toolchain/v2/regex/processors"
)

// ShimAvailable: the export shim (private functions of package cmd) compiled against the working tree.
const ShimAvailable = true

func (r *Root) procCtx() *processors.Context {
	return processors.NewContext(crsctx.New(r.Dir, "toolchain.yaml"))
}

func formatIn(r *Root, filePath string, check bool) CmdResult {
	return runCmd(func() (string, error) {
		cmd.VerifSetRoot(r.Dir, false)
		return "", cmd.VerifProcessFile(filePath, r.procCtx(), check)
	})
}

func updateIn(r *Root, arg string) CmdResult {
	return runCmd(func() (string, error) {
		cmd.VerifSetRoot(r.Dir, false)
		if _, _, _, err := cmd.VerifParseRuleId(arg); err != nil {
			return "", err
		}
		cmd.VerifPerformUpdate(false, r.procCtx())
		return "", nil
	})
}

func compareIn(r *Root, arg string, github bool) CmdResult {
	return runCmd(func() (string, error) {
		cmd.VerifSetRoot(r.Dir, github)
		if _, _, _, err := cmd.VerifParseRuleId(arg); err != nil {
			return "", err
		}
		return "", cmd.VerifPerformCompare(false, r.procCtx())
	})
}

func compareAllIn(r *Root, github bool) CmdResult {
	return runCmd(func() (string, error) {
		cmd.VerifSetRoot(r.Dir, github)
		return "", cmd.VerifPerformCompare(true, r.procCtx())
	})
}

func updateAllIn(r *Root) CmdResult {
	return runCmd(func() (string, error) {
		cmd.VerifSetRoot(r.Dir, false)
		cmd.VerifPerformUpdate(true, r.procCtx())
		return "", nil
	})
}

func updateRegexIn(path, ruleID string, offset uint8, newRegex string) Outcome {
	return Guard(func() (string, error) {
		cmd.VerifUpdateRegex(path, ruleID, offset, newRegex)
		return "", nil
	})
}
