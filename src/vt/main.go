// vtool: orchestrator and in-process worker of the /verif checks.
package main

import (
	"fmt"
	"os"

	"github.com/coreruleset/crs-toolchain/v2/zz_verif/checks"
	"github.com/coreruleset/crs-toolchain/v2/zz_verif/core"
)

func main() {
	if len(os.Args) < 3 || os.Args[1] != "check" {
		fmt.Fprintln(os.Stderr, "usage: vtool check <ID> [--tier quick|thorough] [--replay file]")
		os.Exit(2)
	}
	id := os.Args[2]
	tier := os.Getenv("VERIF_TIER")
	if tier == "" {
		tier = "quick"
	}
	replay := ""
	for i := 3; i < len(os.Args); i++ {
		switch os.Args[i] {
		case "--tier":
			i++
			tier = os.Args[i]
		case "--replay":
			i++
			replay = os.Args[i]
		}
	}
	if replay != "" && replay != "/dev/null" {
		// a replay re-executes the check at the tier recorded in the replay file and
		// reports whether the recorded violation (clause + key) is reproduced
		if t := core.ReplayTier(replay); t != "" {
			tier = t
		}
	}
	f, ok := checks.Registry[id]
	if !ok {
		fmt.Fprintln(os.Stderr, "unknown check", id)
		os.Exit(2)
	}
	r := core.NewRun(id, tier, replay)
	f(r)
	if r.IsWorker() {
		fmt.Fprintln(os.Stderr, "worker stage not reached")
		os.Exit(4)
	}
	r.Finish()
}
