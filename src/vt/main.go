// vtool: orchestrator and in-process worker of the /verif checks.
package main

import (
	"fmt"
	"os"
	"os/exec"

	"github.com/coreruleset/crs-toolchain/v2/zz_verif/checks"
	"github.com/coreruleset/crs-toolchain/v2/zz_verif/core"
)

func main() {
	if len(os.Args) < 3 || os.Args[1] != "check" {
		fmt.Fprintln(os.Stderr, "usage: vtool check <ID> [--tier quick|thorough] [--replay file]")
		os.Exit(2)
	}
	id := os.Args[2]
	tier := os.Getenv("VERIF_TIER")
	if tier == "" {
		tier = "quick"
	}
	replay := ""
	for i := 3; i < len(os.Args); i++ {
		switch os.Args[i] {
		case "--tier":
			i++
			tier = os.Args[i]
		case "--replay":
			i++
			replay = os.Args[i]
		}
	}
	if replay != "" && replay != "/dev/null" {
		// a replay re-executes the check at the tier recorded in the replay file and
		// reports whether the recorded violation (clause + key) is reproduced
		if t := core.ReplayTier(replay); t != "" {
			tier = t
		}
	}
	f, ok := checks.Registry[id]
	if !ok {
		fmt.Fprintln(os.Stderr, "unknown check", id)
		os.Exit(2)
	}
	r := core.NewRun(id, tier, replay)
	f(r)
	if !r.IsWorker() && r.SeamInvalid != "" && !r.Degraded() && !r.CLIOnly {
		// the repository code keeps state between runs in one process (or otherwise behaves differently than
		// a fresh CLI process): the in-process verdicts are not trusted, the check is decided by the CLI seam alone
		fmt.Println("SEAM-INVALID:", r.SeamInvalid)
		fmt.Println("re-running", id, "in degraded mode (every execution is a fresh process of the real CLI, reduced bounds)")
		cmd := exec.Command(os.Args[0], os.Args[1:]...)
		cmd.Env = append(os.Environ(), "VT_DEGRADED=1")
		cmd.Stdout, cmd.Stderr = os.Stdout, os.Stderr
		err := cmd.Run()
		if ee, ok := err.(*exec.ExitError); ok {
			os.Exit(ee.ExitCode())
		} else if err != nil {
			os.Exit(2)
		}
		os.Exit(0)
	}
	if r.IsWorker() {
		fmt.Fprintln(os.Stderr, "worker stage not reached")
		os.Exit(4)
	}
	r.Finish()
}
