// Package ref holds the reference models: deliberately boring re-statements of
// what the properties say, written without looking at how the toolchain does it.
package ref

import (
	"errors"
	"regexp/syntax"
	"sort"
	"strings"
)

// ErrOutside: the program is outside the domain the model defines (not well-formed).
var ErrOutside = errors.New("outside model domain")

// CmdCfg are the configured anti-evasion patterns (already trimmed).
type CmdCfg struct {
	UnixEvasion, UnixSuffix, UnixNoSpace          string
	WindowsEvasion, WindowsSuffix, WindowsNoSpace string
}

// Cmd is the plain reading of one cmdline word.
func Cmd(word string, windows bool, c CmdCfg) string {
	e, s, ns := c.UnixEvasion, c.UnixSuffix, c.UnixNoSpace
	if windows {
		e, s, ns = c.WindowsEvasion, c.WindowsSuffix, c.WindowsNoSpace
	}
	if strings.HasPrefix(word, "'") {
		return word[1:]
	}
	suffix, has := "", false
	if n := len(word); n >= 2 {
		last := word[n-1]
		// count backslashes before the last character
		bs := 0
		for i := n - 2; i >= 0 && word[i] == '\\'; i-- {
			bs++
		}
		if bs%2 == 1 {
			// escaped last character: the backslash goes, the character stays
			word = word[:n-2] + string(last)
		} else if last == '@' {
			word, suffix, has = word[:n-1], s, true
		} else if last == '~' {
			word, suffix, has = word[:n-1], ns, true
		}
	}
	var parts []string
	for i := 0; i < len(word); i++ {
		switch ch := word[i]; ch {
		case '.':
			parts = append(parts, `\.`)
		case '-':
			parts = append(parts, `\-`)
		case ' ':
			parts = append(parts, `\s+`)
		default:
			parts = append(parts, string(ch))
		}
	}
	out := strings.Join(parts, e)
	if has && suffix != "" {
		out += e + suffix
	}
	return out
}

type block struct {
	cmdline bool
	windows bool
	concat  string
	pending []string
}

func alt(xs []string) string {
	if len(xs) == 0 {
		return ""
	}
	return "(?:" + strings.Join(xs, "|") + ")"
}

func (b *block) flush() {
	b.concat += alt(b.pending)
	b.pending = nil
}

func (b *block) result() string {
	b.flush()
	if b.concat == "" {
		return ""
	}
	return "(?:" + b.concat + ")"
}

// Plain returns the plain reading of an assembly program as a fully
// parenthesised expression. Includes and definitions must have been resolved
// by the caller (Defs, Include, Except).
func Plain(text string, cfg CmdCfg) (string, error) {
	var flags []string
	var prefixes, suffixes []string
	stash := map[string]string{}
	stack := []*block{{}}
	lines := strings.Split(text, "\n")
	for _, raw := range lines {
		raw = strings.TrimSuffix(raw, "\r")
		line := strings.TrimLeft(raw, " \t")
		if strings.TrimSpace(line) == "" {
			continue
		}
		top := stack[len(stack)-1]
		switch {
		case strings.HasPrefix(line, "##!>"):
			f := strings.Fields(line[4:])
			if len(f) == 1 && f[0] == "assemble" {
				stack = append(stack, &block{})
			} else if len(f) == 2 && f[0] == "cmdline" && (f[1] == "unix" || f[1] == "windows") {
				stack = append(stack, &block{cmdline: true, windows: f[1] == "windows"})
			} else {
				return "", ErrOutside
			}
		case strings.HasPrefix(line, "##!<"):
			if len(stack) == 1 || strings.TrimSpace(line) != "##!<" {
				return "", ErrOutside
			}
			stack = stack[:len(stack)-1]
			if r := top.result(); r != "" {
				parent := stack[len(stack)-1]
				parent.pending = append(parent.pending, r)
			}
		case strings.HasPrefix(line, "##!=>"):
			if top.cmdline {
				return "", ErrOutside
			}
			name := strings.TrimSpace(line[5:])
			top.flush()
			if name != "" {
				v, ok := stash[name]
				if !ok {
					return "", ErrOutside
				}
				top.concat += v
			}
		case strings.HasPrefix(line, "##!=<"):
			if top.cmdline {
				return "", ErrOutside
			}
			name := strings.TrimSpace(line[5:])
			if name == "" {
				return "", ErrOutside
			}
			top.flush()
			stash[name] = top.concat
			top.concat = ""
		case strings.HasPrefix(line, "##!+"):
			for _, c := range strings.TrimSpace(line[4:]) {
				if c != 'i' && c != 's' {
					return "", ErrOutside
				}
				flags = append(flags, string(c))
			}
		case strings.HasPrefix(line, "##!^"):
			v := strings.TrimSpace(line[4:])
			if v == "" {
				return "", ErrOutside
			}
			prefixes = append(prefixes, v)
		case strings.HasPrefix(line, "##!$"):
			v := strings.TrimSpace(line[4:])
			if v == "" {
				return "", ErrOutside
			}
			suffixes = append(suffixes, v)
		case strings.HasPrefix(line, "##!"):
			// comment
		default:
			if top.cmdline {
				top.pending = append(top.pending, Cmd(line, top.windows, cfg))
			} else {
				if _, err := syntax.Parse(line, syntax.Perl); err != nil {
					return "", ErrOutside
				}
				top.pending = append(top.pending, line)
			}
		}
	}
	if len(stack) != 1 {
		return "", ErrOutside
	}
	body := stack[0].result()
	out := strings.Join(prefixes, "") + body + strings.Join(suffixes, "")
	if out == "" {
		return "", nil
	}
	if len(flags) > 0 {
		sort.Strings(flags)
		var u []string
		for i, f := range flags {
			if i == 0 || f != flags[i-1] {
				u = append(u, f)
			}
		}
		out = "(?" + strings.Join(u, "") + ")" + out
	}
	return out, nil
}
