package ref

import (
	"errors"
	"regexp"
	"strings"
)

// ErrFlagsInInclude: an included file carries a flags line (must be rejected).
var ErrFlagsInInclude = errors.New("flags line in included file")

// Files maps an include name (without .ra) to the text of the file.
type Files map[string]string

type Inlined struct {
	Entries  []string
	Prefixes []string
	Suffixes []string
}

var defLine = regexp.MustCompile(`^##!> define ([A-Za-z0-9_-]+) (\S+)$`)
var incLine = regexp.MustCompile(`^##!> include (\S+)$`)

// ExpandDefs replaces {{name}} by its value, values first resolved against each other (acyclic).
func ExpandDefs(text string, defs map[string]string) string {
	res := map[string]string{}
	var resolve func(n string, depth int) string
	resolve = func(n string, depth int) string {
		if v, ok := res[n]; ok {
			return v
		}
		v := defs[n]
		if depth < 20 {
			for m := range defs {
				if m != n && strings.Contains(v, "{{"+m+"}}") {
					v = strings.ReplaceAll(v, "{{"+m+"}}", resolve(m, depth+1))
				}
			}
		}
		res[n] = v
		return v
	}
	for n := range defs {
		text = strings.ReplaceAll(text, "{{"+n+"}}", resolve(n, 0))
	}
	return text
}

// Inline is the plain reading of "the lines of file name, typed in place": entries
// with the file's own definitions applied, nested includes inlined, comments,
// blank lines and indentation gone; prefixes/suffixes reported separately.
func Inline(files Files, name string, depth int) (Inlined, error) {
	var out Inlined
	text, ok := files[strings.TrimSuffix(name, ".ra")]
	if !ok || depth > 10 {
		return out, ErrOutside
	}
	defs := map[string]string{}
	var body []string
	for _, raw := range strings.Split(text, "\n") {
		line := strings.TrimLeft(strings.TrimSuffix(raw, "\r"), " \t")
		if strings.TrimSpace(line) == "" {
			continue
		}
		switch {
		case defLine.MatchString(line):
			m := defLine.FindStringSubmatch(line)
			defs[m[1]] = m[2]
		case incLine.MatchString(line):
			in, err := Inline(files, incLine.FindStringSubmatch(line)[1], depth+1)
			if err != nil {
				return out, err
			}
			body = append(body, in.Block()...)
		case strings.HasPrefix(line, "##!+"):
			return out, ErrFlagsInInclude
		case strings.HasPrefix(line, "##!^"):
			out.Prefixes = append(out.Prefixes, strings.TrimSpace(line[4:]))
		case strings.HasPrefix(line, "##!$"):
			out.Suffixes = append(out.Suffixes, strings.TrimSpace(line[4:]))
		case strings.HasPrefix(line, "##!>"), strings.HasPrefix(line, "##!<"), strings.HasPrefix(line, "##!="):
			body = append(body, line) // block structure inside the file is kept as is
		case strings.HasPrefix(line, "##!"):
			// comment
		default:
			body = append(body, line)
		}
	}
	for _, l := range body {
		out.Entries = append(out.Entries, ExpandDefs(l, defs))
	}
	for i := range out.Prefixes {
		out.Prefixes[i] = ExpandDefs(out.Prefixes[i], defs)
	}
	for i := range out.Suffixes {
		out.Suffixes[i] = ExpandDefs(out.Suffixes[i], defs)
	}
	return out, nil
}

// Resolve returns the program with every plain include line replaced by the lines of the file typed in place
// (Inline) and the program's own definitions expanded everywhere (definition lines dropped).
func Resolve(text string, files Files) (string, error) {
	if !strings.Contains(text, "##!> include") && !strings.Contains(text, "##!> define") {
		return text, nil
	}
	defs := map[string]string{}
	var out []string
	for _, raw := range strings.Split(text, "\n") {
		line := strings.TrimLeft(strings.TrimSuffix(raw, "\r"), " \t")
		switch {
		case defLine.MatchString(line):
			m := defLine.FindStringSubmatch(line)
			defs[m[1]] = m[2]
		case incLine.MatchString(line):
			in, err := Inline(files, incLine.FindStringSubmatch(line)[1], 0)
			if err != nil {
				return "", err
			}
			out = append(out, in.Block()...)
		default:
			out = append(out, raw)
		}
	}
	return ExpandDefs(strings.Join(out, "\n"), defs), nil
}

// Block renders the inlined file as lines to type in place: the bare entries, or an
// explicit assemble block binding the file's prefixes and suffixes to its own entries.
func (in Inlined) Block() []string {
	if len(in.Prefixes) == 0 && len(in.Suffixes) == 0 {
		return in.Entries
	}
	ls := []string{"##!> assemble"}
	for _, p := range in.Prefixes {
		ls = append(ls, p, "##!=>")
	}
	ls = append(ls, in.Entries...)
	if len(in.Suffixes) > 0 {
		ls = append(ls, "##!=>")
	}
	for _, s := range in.Suffixes {
		ls = append(ls, s, "##!=>")
	}
	return append(ls, "##!<")
}

// Except is the plain reading of include-except with suffix replacement pairs:
// entries of F (after F's definitions) that occur in no exclude file (exclude
// files read with F's definitions), order kept; then each surviving entry that
// ends in a pair's `old` gets that ending replaced (deleted for `""`).
func Except(files Files, name string, excludes []string, pairs [][2]string) ([]string, error) {
	in, err := Inline(files, name, 0)
	if err != nil {
		return nil, err
	}
	fdefs := fileDefs(files[strings.TrimSuffix(name, ".ra")])
	drop := map[string]bool{}
	for _, x := range excludes {
		text, ok := files[strings.TrimSuffix(x, ".ra")]
		if !ok {
			return nil, ErrOutside
		}
		xdefs := fileDefs(text)
		all := map[string]string{}
		for k, v := range fdefs {
			all[k] = v
		}
		for k, v := range xdefs {
			all[k] = v
		}
		for _, raw := range strings.Split(text, "\n") {
			line := strings.TrimLeft(strings.TrimSuffix(raw, "\r"), " \t")
			if strings.TrimSpace(line) == "" || strings.HasPrefix(line, "##!") {
				continue
			}
			drop[ExpandDefs(line, all)] = true
		}
	}
	var out []string
	for _, e := range in.Block() {
		if drop[e] {
			continue
		}
		out = append(out, RewriteSuffix(e, pairs))
	}
	return out, nil
}

// RewriteSuffix applies the first matching pair (longest `old` first) to an entry; directive and comment lines are left alone.
func RewriteSuffix(e string, pairs [][2]string) string {
	if strings.HasPrefix(e, "##!") || strings.TrimSpace(e) == "" {
		return e
	}
	best := -1
	for i, p := range pairs {
		if strings.HasSuffix(e, p[0]) && (best < 0 || len(p[0]) > len(pairs[best][0])) {
			best = i
		}
	}
	if best < 0 {
		return e
	}
	n := pairs[best][1]
	if n == `""` {
		n = ""
	}
	return strings.TrimSuffix(e, pairs[best][0]) + n
}

func fileDefs(text string) map[string]string {
	d := map[string]string{}
	for _, raw := range strings.Split(text, "\n") {
		line := strings.TrimLeft(strings.TrimSuffix(raw, "\r"), " \t")
		if m := defLine.FindStringSubmatch(line); m != nil {
			d[m[1]] = m[2]
		}
	}
	return d
}
