package core

import (
	"github.com/coreruleset/crs-toolchain/v2/zz_verif/verifrt"
)

// Point is one decision of the map-iteration scheduler: which of N remaining keys comes next.
type Point struct {
	Site string `json:"site"`
	N    int    `json:"n"`
}

type Exec struct {
	Choices  []int   `json:"choices"`
	Points   []Point `json:"points"`
	Diverged bool    `json:"diverged,omitempty"` // the execution did not follow the recorded prefix: hidden state
}

// Divergences counts executions that did not reproduce the choice points of their schedule prefix.
var Divergences int

func (e *Exec) Deviations() int {
	d := 0
	for _, c := range e.Choices {
		if c != 0 {
			d++
		}
	}
	return d
}

type schedRun struct {
	prefix []int
	exec   Exec
}

// SiteFilter, when set, restricts exploration to the map-range sites it accepts;
// all other sites iterate in canonical order and are not choice points (a sound
// under-approximation of the schedule space, stated in the evidence of the check using it).
var SiteFilter func(site string) bool

func (s *schedRun) choose(site string, n int) int {
	if SiteFilter != nil && !SiteFilter(site) {
		return 0
	}
	c := 0
	i := len(s.exec.Choices)
	if i < len(s.prefix) {
		c = s.prefix[i]
		if c >= n {
			s.exec.Diverged = true
			c = 0
		}
	}
	s.exec.Choices = append(s.exec.Choices, c)
	s.exec.Points = append(s.exec.Points, Point{site, n})
	return c
}

// RunSchedule executes f once under the given schedule prefix (choice 0 afterwards).
func RunSchedule(prefix []int, f func()) *Exec {
	s := &schedRun{prefix: prefix}
	verifrt.Choose = s.choose
	defer func() { verifrt.Choose = nil }()
	f()
	if len(s.exec.Choices) < len(prefix) {
		s.exec.Diverged = true
	}
	if s.exec.Diverged {
		Divergences++
	}
	return &s.exec
}

// ExploreSchedules runs f under every map-iteration schedule that deviates from
// the canonical order (smallest key first) at most `bound` times: the stateless
// deviation-bounded DFS. f must be deterministic given the schedule; visit is
// called after every execution. Returns executions and whether maxExecs capped the search.
func ExploreSchedules(bound, maxExecs int, f func(), visit func(e *Exec)) (execs int, capped bool) {
	var rec func(prefix []int)
	rec = func(prefix []int) {
		if capped {
			return
		}
		if maxExecs > 0 && execs >= maxExecs {
			capped = true
			return
		}
		e := RunSchedule(prefix, f)
		Tick()
		execs++
		visit(e)
		if e.Diverged {
			return
		}
		dev := 0
		for i := 0; i < len(e.Choices); i++ {
			if i >= len(prefix) {
				if dev+1 <= bound {
					for alt := 1; alt < e.Points[i].N; alt++ {
						np := make([]int, i+1)
						copy(np, e.Choices[:i])
						np[i] = alt
						rec(np)
					}
				}
			}
			if e.Choices[i] != 0 {
				dev++
			}
		}
	}
	rec(nil)
	return execs, capped
}

// Instrumented reports whether this binary was built with the map-range seam.
func Instrumented() bool { return verifrt.Instrumented }
