package core

import (
	"bytes"
	"context"
	"crypto/sha256"
	"encoding/hex"
	"encoding/json"
	"fmt"
	"io/fs"
	"os"
	"os/exec"
	"path/filepath"
	"sort"
	"strconv"
	"strings"
	"syscall"
	"time"
)

// Tree is a set of files (relative path -> content). A path ending in "/" is an empty directory;
// content starting with LinkPrefix makes the entry a symbolic link to the rest of the content.
type Tree map[string]string

const LinkPrefix = "\x00->"

func (t Tree) Clone() Tree {
	c := Tree{}
	for k, v := range t {
		c[k] = v
	}
	return c
}

// Scratch returns a fresh scratch directory outside /repo and /verif.
func Scratch(prefix string) string {
	base := os.Getenv("VERIF_SCRATCH")
	if base == "" {
		base = "/dev/shm"
		if _, err := os.Stat(base); err != nil {
			base = os.TempDir()
		}
	}
	d, err := os.MkdirTemp(base, "verif-"+prefix+"-")
	if err != nil {
		panic(err)
	}
	return d
}

var oldTime = time.Date(2001, 1, 1, 0, 0, 0, 0, time.UTC)

// Materialise writes the tree below dir; mtimes are set to 2001 so that a
// rewrite with identical bytes is visible in a snapshot.
func (t Tree) Materialise(dir string) {
	keys := make([]string, 0, len(t))
	for k := range t {
		keys = append(keys, k)
	}
	sort.Strings(keys)
	for _, k := range keys {
		p := filepath.Join(dir, k)
		if strings.HasSuffix(k, "/") {
			if err := os.MkdirAll(p, 0o755); err != nil {
				panic(err)
			}
			continue
		}
		if err := os.MkdirAll(filepath.Dir(p), 0o755); err != nil {
			panic(err)
		}
		if target, ok := strings.CutPrefix(t[k], LinkPrefix); ok {
			os.Remove(p)
			if err := os.Symlink(target, p); err != nil {
				panic(err)
			}
			continue
		}
		if err := os.WriteFile(p, []byte(t[k]), 0o644); err != nil {
			panic(err)
		}
		os.Chtimes(p, oldTime, oldTime)
	}
}

type FileState struct {
	Mode  string `json:"mode"`
	Size  int64  `json:"size"`
	Sha   string `json:"sha"`
	Mtime int64  `json:"mtime"`
	Ino   uint64 `json:"ino"`
}

type Snap map[string]FileState

// Snapshot records every file and directory below dir.
func Snapshot(dir string) Snap {
	s := Snap{}
	filepath.WalkDir(dir, func(p string, d fs.DirEntry, err error) error {
		if err != nil {
			return nil
		}
		rel, _ := filepath.Rel(dir, p)
		info, err := os.Lstat(p)
		if err != nil {
			return nil
		}
		st := FileState{Mode: info.Mode().String(), Size: info.Size()}
		if sys, ok := info.Sys().(*syscall.Stat_t); ok {
			st.Ino = sys.Ino
		}
		if info.Mode().IsRegular() {
			b, _ := os.ReadFile(p)
			h := sha256.Sum256(b)
			st.Sha = hex.EncodeToString(h[:])
			st.Mtime = info.ModTime().UnixNano()
		} else if info.IsDir() {
			st.Size = 0
		} else if info.Mode()&os.ModeSymlink != 0 {
			target, _ := os.Readlink(p)
			st.Sha = "link:" + target
		}
		s[rel] = st
		return nil
	})
	return s
}

// Diff lists paths created, deleted or modified (content, mode; mtime/inode when strict).
func (a Snap) Diff(b Snap, strict bool) []string {
	var out []string
	for p, x := range a {
		y, ok := b[p]
		if !ok {
			out = append(out, "deleted:"+p)
			continue
		}
		if x.Mode != y.Mode || x.Sha != y.Sha || x.Size != y.Size {
			out = append(out, "modified:"+p)
		} else if strict && strings.HasPrefix(x.Mode, "-") && (x.Mtime != y.Mtime || x.Ino != y.Ino) {
			out = append(out, "rewritten:"+p)
		}
	}
	for p := range b {
		if _, ok := a[p]; !ok {
			out = append(out, "created:"+p)
		}
	}
	sort.Strings(out)
	return out
}

// ContentHash is a canonical hash of (path, mode, sha) of all entries.
func (a Snap) ContentHash() string {
	keys := make([]string, 0, len(a))
	for k := range a {
		keys = append(keys, k)
	}
	sort.Strings(keys)
	var sb strings.Builder
	for _, k := range keys {
		fmt.Fprintf(&sb, "%s\x00%s\x00%s\n", k, a[k].Mode, a[k].Sha)
	}
	return Hash(sb.String())
}

// ReadTree reads all regular files below dir.
func ReadTree(dir string) Tree {
	t := Tree{}
	filepath.WalkDir(dir, func(p string, d fs.DirEntry, err error) error {
		if err != nil || d.IsDir() {
			return nil
		}
		rel, _ := filepath.Rel(dir, p)
		if d.Type()&os.ModeSymlink != 0 {
			target, _ := os.Readlink(p)
			t[rel] = LinkPrefix + target
			return nil
		}
		b, _ := os.ReadFile(p)
		t[rel] = string(b)
		return nil
	})
	return t
}

type CLIResult struct {
	Stdout, Stderr string
	Exit           int
	TimedOut       bool
}

// RunCLI executes a binary with a sanitised environment.
func RunCLI(bin, cwd, stdin string, extraEnv []string, args ...string) CLIResult {
	ctx, cancel := context.WithTimeout(context.Background(), 60*time.Second)
	defer cancel()
	cmd := exec.CommandContext(ctx, bin, args...)
	cmd.Dir = cwd
	cmd.Env = append([]string{"CI=true", "HOME=" + cwd, "TMPDIR=" + os.TempDir(), "PATH=/usr/bin:/bin", "NO_COLOR=1"}, extraEnv...)
	if v := os.Getenv("GOCOVERDIR"); v != "" {
		cmd.Env = append(cmd.Env, "GOCOVERDIR="+v) // development aid: coverage of the code under test (bin/coverage.sh)
	}
	cmd.Stdin = strings.NewReader(stdin)
	var so, se bytes.Buffer
	cmd.Stdout, cmd.Stderr = &so, &se
	err := cmd.Run()
	res := CLIResult{Stdout: so.String(), Stderr: se.String()}
	if ctx.Err() != nil {
		res.TimedOut = true
		res.Exit = -1
		return res
	}
	if err != nil {
		if ee, ok := err.(*exec.ExitError); ok {
			res.Exit = ee.ExitCode()
		} else {
			res.Exit = -2
			res.Stderr += "\nexec error: " + err.Error()
		}
	}
	return res
}

// RunCLIChunked is RunCLI with standard input delivered through a pipe in several writes with a pause between them.
func RunCLIChunked(bin, cwd string, chunks []string, pause time.Duration, extraEnv []string, args ...string) CLIResult {
	ctx, cancel := context.WithTimeout(context.Background(), 60*time.Second)
	defer cancel()
	cmd := exec.CommandContext(ctx, bin, args...)
	cmd.Dir = cwd
	cmd.Env = append([]string{"CI=true", "HOME=" + cwd, "TMPDIR=" + os.TempDir(), "PATH=/usr/bin:/bin", "NO_COLOR=1"}, extraEnv...)
	in, err := cmd.StdinPipe()
	if err != nil {
		panic(err)
	}
	var so, se bytes.Buffer
	cmd.Stdout, cmd.Stderr = &so, &se
	if err := cmd.Start(); err != nil {
		return CLIResult{Exit: -2, Stderr: err.Error()}
	}
	go func() {
		for i, c := range chunks {
			if i > 0 {
				time.Sleep(pause)
			}
			if _, err := in.Write([]byte(c)); err != nil {
				break
			}
		}
		in.Close()
	}()
	err = cmd.Wait()
	res := CLIResult{Stdout: so.String(), Stderr: se.String()}
	if ctx.Err() != nil {
		res.TimedOut, res.Exit = true, -1
		return res
	}
	if err != nil {
		if ee, ok := err.(*exec.ExitError); ok {
			res.Exit = ee.ExitCode()
		} else {
			res.Exit = -2
		}
	}
	return res
}

// ShellQuote for replay command lines.
func ShellQuote(s string) string {
	if s != "" && strings.IndexFunc(s, func(r rune) bool {
		return !(r >= 'a' && r <= 'z' || r >= 'A' && r <= 'Z' || r >= '0' && r <= '9' || strings.ContainsRune("-_./=:", r))
	}) < 0 {
		return s
	}
	return "$'" + strings.NewReplacer("\\", "\\\\", "'", "\\'", "\n", "\\n", "\t", "\\t", "\r", "\\r", "\f", "\\f", "\x0b", "\\v", "\x00", "\\x00", "\x01", "\\x01", "\x7f", "\\x7f", "\xff", "\\xff").Replace(s) + "'"
}

// Bytes is a string that survives encoding/json unchanged even when it is not valid UTF-8: it travels as a
// Go-quoted ASCII literal (workers report their results as JSON).
type Bytes string

func (b Bytes) MarshalJSON() ([]byte, error) {
	return json.Marshal(strconv.QuoteToASCII(string(b)))
}

func (b *Bytes) UnmarshalJSON(data []byte) error {
	var q string
	if err := json.Unmarshal(data, &q); err != nil {
		return err
	}
	u, err := strconv.Unquote(q)
	if err != nil {
		return err
	}
	*b = Bytes(u)
	return nil
}
