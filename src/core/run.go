// Package core is the plumbing shared by all checks: run context, process-level
// parallelism (never goroutines: the assembler keeps package-level state),
// evidence, violations, known findings and replay files.
package core

import (
	"bufio"
	"crypto/sha256"
	"encoding/hex"
	"encoding/json"
	"fmt"
	"os"
	"os/exec"
	"path/filepath"
	"sort"
	"strconv"
	"strings"
	"sync"
	"sync/atomic"
	"syscall"
	"time"
)

type Run struct {
	ID       string
	Tier     string // quick | thorough
	Seed     int
	Start    time.Time
	Root     string // /verif
	Repo     string // /repo
	Build    string // /verif/.build
	Crs      string // path of the plain CLI binary built from the working tree
	Replay   string // replay file path when --replay is given
	Cov      map[string]any
	Assume   []string
	Level    string
	viol     []Violation
	worker   *workerSpec
	inflight atomic.Pointer[string]
	trace    bool
	harness  []string
	Workers  int
	// SeamInvalid: the in-process seam was found unfaithful (probe outcomes differ from fresh processes,
	// or an in-process result disagrees with the real CLI); the check is then re-run in degraded (CLI only) mode.
	SeamInvalid string
	probeRef    string
	CLIOnly     bool // the check never uses the in-process seam
}

// WorkerProbe, when set, is run by every in-process worker before (twice) and after its shard; ProbeReference
// computes the same probes with fresh processes. Set by package checks.
var WorkerProbe func() string
var ProbeReference func() string

// Abandon: the in-process seam was found unfaithful during this (non-degraded) run; the check should stop
// executing repository code in-process and return, main re-runs it in degraded mode.
func (r *Run) Abandon() bool {
	return r.SeamInvalid != "" && !r.Degraded() && !r.CLIOnly && r.worker == nil
}

// Degraded reports whether this run uses the CLI-only seam.
func (r *Run) Degraded() bool { return os.Getenv("VT_DEGRADED") == "1" }

type workerSpec struct {
	stage    string
	shard, n int
	input    string
}

type Violation struct {
	Clause string   `json:"clause"`
	Key    string   `json:"key"`    // normalised minimal case; identity of the violation
	What   string   `json:"what"`   // one-line human description
	Detail any      `json:"detail"` // observed vs expected, case data
	Repro  []string `json:"repro"`  // shell commands reproducing it with the plain CLI
}

func NewRun(id, tier, replay string) *Run {
	r := &Run{ID: id, Tier: tier, Start: time.Now(), Cov: map[string]any{}, Level: "model_checking", Replay: replay}
	r.Root = os.Getenv("VERIF_ROOT")
	r.Repo = os.Getenv("VERIF_REPO")
	r.Build = os.Getenv("VERIF_BUILD")
	if r.Build == "" {
		r.Build = filepath.Join(r.Root, ".build")
	}
	r.Crs = filepath.Join(r.Build, "crs")
	if s := os.Getenv("VERIF_SEED"); s != "" {
		r.Seed, _ = strconv.Atoi(s)
	}
	r.Workers = 16
	if s := os.Getenv("VERIF_WORKERS"); s != "" {
		r.Workers, _ = strconv.Atoi(s)
	}
	if w := os.Getenv("VT_WORKER"); w != "" {
		p := strings.Split(w, ":")
		sh, _ := strconv.Atoi(p[1])
		n, _ := strconv.Atoi(p[2])
		r.worker = &workerSpec{stage: p[0], shard: sh, n: n, input: os.Getenv("VT_INPUT")}
		r.trace = os.Getenv("VT_TRACE") == "1"
		// a runaway case must kill its worker ("out of memory" crash), not the machine
		lim := uint64(WorkerMemoryLimit)
		syscall.Setrlimit(syscall.RLIMIT_AS, &syscall.Rlimit{Cur: lim, Max: lim})
		go r.watchdog()
	}
	return r
}

func (r *Run) IsWorker() bool { return r.worker != nil }
func (r *Run) Thorough() bool { return r.Tier == "thorough" }
func (r *Run) Pick(q, t int) int {
	if r.Thorough() {
		return t
	}
	return q
}

// LimitOpenFiles lowers the descriptor limit of this (worker) process: include cycles of the code under test
// end when it is reached. Only for checks whose cases close what they open or retry after a collection.
func LimitOpenFiles(n uint64) {
	syscall.Setrlimit(syscall.RLIMIT_NOFILE, &syscall.Rlimit{Cur: n, Max: n})
}

// Inflight names the case about to be executed (for hang / crash attribution).
func (r *Run) Inflight(s string) {
	r.inflight.Store(&s)
	if r.trace {
		fmt.Fprintf(os.Stderr, "INFLIGHT %s\n", strconv.Quote(s))
	}
}

const WatchdogSeconds = 20

// WorkerMemoryLimit bounds the address space of one worker process.
const WorkerMemoryLimit = 12 << 30

// Tick tells the watchdog that the in-flight case is making progress (one more
// execution of a multi-execution case finished).
func Tick() { ticks.Add(1) }

var ticks atomic.Int64

func (r *Run) watchdog() {
	// A case hangs when it burns WatchdogSeconds of CPU without finishing or
	// ticking, or shows no progress for 5 minutes of polls. Wall-clock
	// differences are not used: a paused or overloaded machine must not look
	// like a hang.
	var last *string
	var lastTick int64
	var sinceCPU time.Duration
	polls := 0
	for {
		time.Sleep(500 * time.Millisecond)
		cur := r.inflight.Load()
		if t := ticks.Load(); cur != last || t != lastTick {
			last, lastTick, sinceCPU, polls = cur, t, cpuTime(), 0
			continue
		}
		polls++
		if cur != nil && (cpuTime()-sinceCPU > WatchdogSeconds*time.Second || polls > 600) {
			f := os.NewFile(3, "out")
			b, _ := json.Marshal(record{T: "hang", Case: *cur})
			// leading newline: the main goroutine may have left a partial line
			f.Write(append(append([]byte{'\n'}, b...), '\n'))
			os.Exit(3)
		}
	}
}

func cpuTime() time.Duration {
	var ru syscall.Rusage
	if syscall.Getrusage(syscall.RUSAGE_SELF, &ru) != nil {
		return 0
	}
	return time.Duration(ru.Utime.Nano() + ru.Stime.Nano())
}

type record struct {
	T    string          `json:"t"`
	V    json.RawMessage `json:"v,omitempty"`
	Case string          `json:"case,omitempty"`
}

// Hang or crash of a worker, attributed to the in-flight case.
type Death struct {
	Stage string
	Shard int
	Kind  string // hang | crash
	Case  string
	Log   string
}

// Parallel runs body in n single-goroutine child processes (re-exec of this
// binary with the same arguments). In a child the body for the matching stage is
// executed and the process exits; other stages return nil immediately.
func Parallel[In, Out any](r *Run, stage string, in In, n int, body func(in In, shard, n int, emit func(Out))) ([]Out, []Death) {
	if r.worker != nil {
		if r.worker.stage != stage {
			return nil, nil
		}
		var input In
		b, err := os.ReadFile(r.worker.input)
		if err != nil {
			panic(err)
		}
		if err := json.Unmarshal(b, &input); err != nil {
			panic(err)
		}
		f := os.NewFile(3, "out")
		w := bufio.NewWriterSize(f, 1<<16)
		emit := func(o Out) {
			vb, err := json.Marshal(o)
			if err != nil {
				panic(err)
			}
			rb, _ := json.Marshal(record{T: "out", V: vb})
			w.Write(rb)
			w.WriteByte('\n')
		}
		probe := func(tag string) {
			if WorkerProbe == nil || r.Degraded() {
				return
			}
			rb, _ := json.Marshal(record{T: "probe", Case: tag + "\x00" + WorkerProbe()})
			w.Write(rb)
			w.WriteByte('\n')
		}
		probe("start")
		probe("again")
		body(input, r.worker.shard, r.worker.n, emit)
		probe("end")
		w.Flush()
		os.Exit(0)
	}
	tmp, err := os.CreateTemp("", "vt-in-*.json")
	if err != nil {
		panic(err)
	}
	defer os.Remove(tmp.Name())
	b, _ := json.Marshal(in)
	tmp.Write(b)
	tmp.Close()
	var mu sync.Mutex
	var outs []Out
	var deaths []Death
	var wg sync.WaitGroup
	runShard := func(shard int, trace bool) (res []Out, hang string, exit int, stderr string) {
		cmd := exec.Command(os.Args[0], os.Args[1:]...)
		cmd.Env = append(os.Environ(), fmt.Sprintf("VT_WORKER=%s:%d:%d", stage, shard, n), "VT_INPUT="+tmp.Name(), "GOMAXPROCS=2")
		if trace {
			cmd.Env = append(cmd.Env, "VT_TRACE=1")
		}
		pr, pw, _ := os.Pipe()
		cmd.ExtraFiles = []*os.File{pw}
		var eb tailBuf
		cmd.Stderr = &eb
		cmd.Stdout = &eb
		if err := cmd.Start(); err != nil {
			panic(err)
		}
		pw.Close()
		sc := bufio.NewScanner(pr)
		sc.Buffer(make([]byte, 1<<20), 1<<30)
		for sc.Scan() {
			var rec record
			if err := json.Unmarshal(sc.Bytes(), &rec); err != nil {
				continue
			}
			switch rec.T {
			case "out":
				var o Out
				if err := json.Unmarshal(rec.V, &o); err != nil {
					panic(err)
				}
				res = append(res, o)
			case "hang":
				hang = rec.Case
			case "probe":
				tag, digest, _ := strings.Cut(rec.Case, "\x00")
				mu.Lock()
				if r.probeRef == "" && ProbeReference != nil {
					r.probeRef = ProbeReference()
				}
				if r.probeRef != "" && digest != r.probeRef && r.SeamInvalid == "" {
					r.SeamInvalid = fmt.Sprintf("probe programs run in-process (%s of worker %s/%d) differ from fresh processes: %s", tag, stage, shard, firstDiff(r.probeRef, digest))
				}
				mu.Unlock()
			}
		}
		err := cmd.Wait()
		pr.Close()
		if err != nil {
			exit = 1
			eb.Write([]byte("\nwait: " + err.Error() + "\n"))
			if ee, ok := err.(*exec.ExitError); ok {
				exit = ee.ExitCode()
				if exit == 0 {
					exit = 1
				}
			}
		}
		return res, hang, exit, eb.String()
	}
	for s := 0; s < n; s++ {
		wg.Add(1)
		go func(shard int) {
			defer wg.Done()
			res, hang, exit, stderr := runShard(shard, false)
			if hang == "" && exit != 0 {
				// find the in-flight case by re-running the shard in trace mode
				res2, hang2, exit2, stderr2 := runShard(shard, true)
				mu.Lock()
				defer mu.Unlock()
				switch {
				case hang2 != "":
					outs = append(outs, res...)
					deaths = append(deaths, Death{stage, shard, "hang", hang2, tail(stderr, 4000)})
				case exit2 == 0:
					// the death did not repeat: the complete re-run replaces the partial results
					fmt.Fprintf(os.Stderr, "NOTE: worker %s/%d died once (exit %d) and completed when re-run; its re-run results are used\n", stage, shard, exit)
					outs = append(outs, res2...)
				default:
					outs = append(outs, res...)
					deaths = append(deaths, Death{stage, shard, "crash", lastInflight(stderr2), tail(stderr, 4000)})
				}
				return
			}
			mu.Lock()
			defer mu.Unlock()
			outs = append(outs, res...)
			if hang != "" {
				deaths = append(deaths, Death{stage, shard, "hang", hang, tail(stderr, 2000)})
			}
		}(s)
	}
	wg.Wait()
	return outs, deaths
}

type tailBuf struct {
	mu sync.Mutex
	b  []byte
}

func (t *tailBuf) Write(p []byte) (int, error) {
	t.mu.Lock()
	defer t.mu.Unlock()
	t.b = append(t.b, p...)
	if len(t.b) > 1<<20 {
		t.b = t.b[len(t.b)-(1<<19):]
	}
	return len(p), nil
}
func (t *tailBuf) String() string { t.mu.Lock(); defer t.mu.Unlock(); return string(t.b) }

func tail(s string, n int) string {
	if len(s) > n {
		return s[len(s)-n:]
	}
	return s
}

func lastInflight(stderr string) string {
	last := ""
	for _, l := range strings.Split(stderr, "\n") {
		if strings.HasPrefix(l, "INFLIGHT ") {
			if u, err := strconv.Unquote(strings.TrimPrefix(l, "INFLIGHT ")); err == nil {
				last = u
			}
		}
	}
	return last
}

func firstDiff(a, b string) string {
	la, lb := strings.Split(a, "\n"), strings.Split(b, "\n")
	for i := range la {
		if i >= len(lb) || la[i] != lb[i] {
			x := ""
			if i < len(lb) {
				x = lb[i]
			}
			return fmt.Sprintf("probe #%d fresh=%q in-process=%q", i, la[i], x)
		}
	}
	return "?"
}

// HarnessError records a failure of the machinery itself (not a verdict).
func (r *Run) HarnessError(format string, a ...any) {
	m := fmt.Sprintf(format, a...)
	if strings.HasPrefix(m, "in-process and CLI disagree") && r.SeamInvalid == "" {
		r.SeamInvalid = m
	}
	r.harness = append(r.harness, m)
}

func (r *Run) Report(v Violation) { r.viol = append(r.viol, v) }

type Finding struct {
	Property string `json:"property"`
	Clause   string `json:"clause"`
	Key      string `json:"key"`
	What     string `json:"what"`
	Status   string `json:"status,omitempty"` // "" = open finding; "fixed: ..." entries suppress nothing
}

type findingsFile struct {
	Findings []Finding `json:"findings"`
	Fixed    []string  `json:"fixed"`
}

func (r *Run) loadFindings() []Finding {
	var ff findingsFile
	b, err := os.ReadFile(filepath.Join(r.Root, "known_findings.json"))
	if err != nil {
		return nil
	}
	if err := json.Unmarshal(b, &ff); err != nil {
		r.HarnessError("known_findings.json: %v", err)
		return nil
	}
	var out []Finding
	for _, f := range ff.Findings {
		if f.Property == r.ID {
			out = append(out, f)
		}
	}
	return out
}

func Hash(s string) string {
	h := sha256.Sum256([]byte(s))
	return hex.EncodeToString(h[:])[:16]
}

type replayFile struct {
	Property  string    `json:"property"`
	Tier      string    `json:"tier"`
	Violation Violation `json:"violation"`
}

func loadReplay(p string) *replayFile {
	b, err := os.ReadFile(p)
	if err != nil {
		return nil
	}
	var rf replayFile
	if json.Unmarshal(b, &rf) != nil || rf.Property == "" {
		return nil
	}
	return &rf
}

// ReplayTier returns the tier recorded in a replay file ("" if unreadable).
func ReplayTier(p string) string {
	if rf := loadReplay(p); rf != nil {
		return rf.Tier
	}
	return ""
}

// finishReplay: verdict of a replay run.
func (r *Run) finishReplay(rf *replayFile) {
	for _, v := range r.viol {
		if v.Clause == rf.Violation.Clause && v.Key == rf.Violation.Key {
			fmt.Printf("REPRODUCED clause=%s what=%s\n", v.Clause, strconv.Quote(v.What))
			for _, c := range v.Repro {
				fmt.Println("  repro:", c)
			}
			fmt.Printf("VIOLATION property=%s replay=%s\n", r.ID, r.Replay)
			os.Exit(1)
		}
	}
	fmt.Printf("NOT-REPRODUCED property=%s clause=%s key=%s (the recorded violation does not occur on the current tree)\n", r.ID, rf.Violation.Clause, strconv.Quote(rf.Violation.Key))
	if len(r.harness) > 0 {
		for _, h := range r.harness {
			fmt.Println("HARNESS-ERROR:", h)
		}
		os.Exit(2)
	}
	os.Exit(0)
}

// Finish writes evidence, replay files, prints the verdict lines and exits.
func (r *Run) Finish() {
	if r.Replay != "" && r.Replay != "/dev/null" {
		if rf := loadReplay(r.Replay); rf != nil {
			r.finishReplay(rf)
		}
		fmt.Println("cannot read replay file", r.Replay)
		os.Exit(2)
	}
	known := r.loadFindings()
	type vk struct{ c, k string }
	seen := map[vk]bool{}
	var uniq []Violation
	for _, v := range r.viol {
		k := vk{v.Clause, v.Key}
		if !seen[k] {
			seen[k] = true
			uniq = append(uniq, v)
		}
	}
	sort.Slice(uniq, func(i, j int) bool {
		if uniq[i].Clause != uniq[j].Clause {
			return uniq[i].Clause < uniq[j].Clause
		}
		return uniq[i].Key < uniq[j].Key
	})
	newCount := 0
	knownSeen := map[int]bool{}
	var lines []string
	for _, v := range uniq {
		matched := -1
		for i, f := range known {
			if f.Clause == v.Clause && f.Key == v.Key {
				matched = i
				break
			}
		}
		if matched >= 0 {
			knownSeen[matched] = true
			continue
		}
		newCount++
		dir := filepath.Join(r.Root, "replays", r.ID)
		os.MkdirAll(dir, 0o755)
		p := filepath.Join(dir, Hash(v.Clause+"\x00"+v.Key)+".json")
		b, _ := json.MarshalIndent(map[string]any{"property": r.ID, "tier": r.Tier, "violation": v}, "", " ")
		os.WriteFile(p, append(b, '\n'), 0o644)
		if newCount <= 40 {
			lines = append(lines, fmt.Sprintf("VIOLATION property=%s replay=%s clause=%s what=%s", r.ID, p, v.Clause, strconv.Quote(v.What)))
		}
	}
	for i, f := range known {
		if knownSeen[i] {
			fmt.Printf("KNOWN-FINDING: property=%s clause=%s %s\n", r.ID, f.Clause, f.What)
		} else {
			fmt.Printf("NOTE known finding not observed in this run (tier %s may not reach it): property=%s clause=%s key=%s\n", r.Tier, r.ID, f.Clause, strconv.Quote(f.Key))
		}
	}
	for _, l := range lines {
		fmt.Println(l)
	}
	if newCount > 40 {
		fmt.Printf("... %d further violations written to replays/%s/\n", newCount-40, r.ID)
	}
	r.Cov["known_findings_observed"] = len(knownSeen)
	if r.Degraded() {
		r.Cov["seam"] = "cli-degraded: the in-process seam was found unfaithful on this tree; every execution is a fresh process of the real CLI, bounds reduced"
		r.Cov["exhaustive"] = false
	} else {
		r.Cov["seam"] = "in-process (validated against the real CLI) + CLI"
	}
	r.Cov["violations_distinct"] = len(uniq)
	if r.Assume == nil {
		r.Assume = []string{}
	}
	ev := map[string]any{
		"property_id": r.ID, "tier": r.Tier, "seed": r.Seed, "level": r.Level,
		"coverage": r.Cov, "assumptions": r.Assume,
		"wall_s": time.Since(r.Start).Seconds(), "violations": newCount,
	}
	if len(r.harness) > 0 {
		ev["harness_errors"] = r.harness
	}
	if r.Replay == "" {
		b, _ := json.MarshalIndent(ev, "", " ")
		os.MkdirAll(filepath.Join(r.Root, "evidence"), 0o755)
		if err := os.WriteFile(filepath.Join(r.Root, "evidence", r.ID+".json"), append(b, '\n'), 0o644); err != nil {
			fmt.Fprintln(os.Stderr, "cannot write evidence:", err)
			os.Exit(2)
		}
	}
	fmt.Printf("%s tier=%s wall=%.1fs violations=%d known=%d", r.ID, r.Tier, time.Since(r.Start).Seconds(), newCount, len(knownSeen))
	for _, k := range []string{"evaluations", "states", "transitions", "distinct_nontrivial", "traces_validated_against_impl", "exhaustive"} {
		if v, ok := r.Cov[k]; ok {
			fmt.Printf(" %s=%v", k, v)
		}
	}
	fmt.Println()
	for _, h := range r.harness {
		fmt.Println("HARNESS-ERROR:", h)
	}
	if newCount > 0 {
		os.Exit(1)
	}
	if len(r.harness) > 0 {
		os.Exit(2)
	}
	os.Exit(0)
}

// Samples keeps the first k items as evidence samples.
func Samples[T any](xs []T, k int) []any {
	var out []any
	for i := 0; i < len(xs) && i < k; i++ {
		out = append(out, xs[i])
	}
	return out
}
