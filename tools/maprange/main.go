// maprange rewrites every `for ... range <map>` of the repository's non-test
// sources into a range-over-func call verifrt.Map(m, site), so that the
// explorer owns map iteration order. usage: maprange <repo> <outdir>
package main

import (
	"bytes"
	"fmt"
	"go/ast"
	"go/format"
	"go/importer"
	"go/parser"
	"go/token"
	"go/types"
	"os"
	"path/filepath"
	"sort"
	"strconv"
	"strings"
)

const rtPath = "github.com/coreruleset/crs-toolchain/v2/zz_verif/verifrt"

func main() {
	repo, out := os.Args[1], os.Args[2]
	if err := os.Chdir(repo); err != nil {
		panic(err)
	}
	var dirs []string
	filepath.Walk(".", func(p string, info os.FileInfo, err error) error {
		if err != nil {
			return nil
		}
		if info.IsDir() {
			b := filepath.Base(p)
			if p != "." && (strings.HasPrefix(b, ".") || b == "zz_verif" || b == "testdata" || b == "vendor") {
				return filepath.SkipDir
			}
			dirs = append(dirs, p)
		}
		return nil
	})
	fset := token.NewFileSet()
	imp := importer.ForCompiler(fset, "source", nil)
	total := 0
	var sites []string
	for _, d := range dirs {
		ents, _ := os.ReadDir(d)
		var files []*ast.File
		var names []string
		for _, e := range ents {
			n := e.Name()
			if e.IsDir() || !strings.HasSuffix(n, ".go") || strings.HasSuffix(n, "_test.go") || strings.HasPrefix(n, "zz_verif") {
				continue
			}
			f, err := parser.ParseFile(fset, filepath.Join(d, n), nil, parser.ParseComments)
			if err != nil {
				fmt.Fprintln(os.Stderr, "parse:", err)
				os.Exit(1)
			}
			files = append(files, f)
			names = append(names, filepath.Join(d, n))
		}
		if len(files) == 0 {
			continue
		}
		info := &types.Info{Types: map[ast.Expr]types.TypeAndValue{}}
		conf := types.Config{Importer: imp, Error: func(err error) {}}
		conf.Check(d, fset, files, info)
		for i, f := range files {
			n := 0
			fn := "?"
			ast.Inspect(f, func(node ast.Node) bool {
				if fd, ok := node.(*ast.FuncDecl); ok {
					fn = fd.Name.Name
				}
				rs, ok := node.(*ast.RangeStmt)
				if !ok {
					return true
				}
				tv, ok := info.Types[rs.X]
				if !ok || tv.Type == nil {
					return true
				}
				if _, isMap := tv.Type.Underlying().(*types.Map); !isMap {
					return true
				}
				pos := fset.Position(rs.Pos())
				site := fmt.Sprintf("%s:%d:%s", filepath.ToSlash(names[i]), pos.Line, fn)
				rs.X = &ast.CallExpr{
					Fun:  &ast.SelectorExpr{X: ast.NewIdent("verifrt"), Sel: ast.NewIdent("Map")},
					Args: []ast.Expr{rs.X, &ast.BasicLit{Kind: token.STRING, Value: strconv.Quote(site)}},
				}
				sites = append(sites, site)
				n++
				return true
			})
			if n == 0 {
				continue
			}
			total += n
			// add the import
			spec := &ast.ImportSpec{Path: &ast.BasicLit{Kind: token.STRING, Value: strconv.Quote(rtPath)}}
			added := false
			for _, decl := range f.Decls {
				if gd, ok := decl.(*ast.GenDecl); ok && gd.Tok == token.IMPORT {
					gd.Specs = append(gd.Specs, spec)
					if !gd.Lparen.IsValid() {
						gd.Lparen = gd.Pos()
						gd.Rparen = gd.End()
					}
					added = true
					break
				}
			}
			if !added {
				f.Decls = append([]ast.Decl{&ast.GenDecl{Tok: token.IMPORT, Specs: []ast.Spec{spec}}}, f.Decls...)
			}
			var buf bytes.Buffer
			if err := format.Node(&buf, fset, f); err != nil {
				fmt.Fprintln(os.Stderr, "format:", err)
				os.Exit(1)
			}
			dst := filepath.Join(out, names[i])
			os.MkdirAll(filepath.Dir(dst), 0o755)
			if err := os.WriteFile(dst, buf.Bytes(), 0o644); err != nil {
				panic(err)
			}
		}
	}
	sort.Strings(sites)
	marker := filepath.Join(out, "zz_verif/verifrt/zz_instrumented.go")
	os.MkdirAll(filepath.Dir(marker), 0o755)
	os.WriteFile(marker, []byte("package verifrt\n\nfunc init() { Instrumented = true }\n\n// Sites lists the rewritten range statements.\nvar Sites = "+fmt.Sprintf("%#v", sites)+"\n"), 0o644)
	os.WriteFile(filepath.Join(out, "SITES"), []byte(strings.Join(sites, "\n")+"\n"), 0o644)
	fmt.Printf("maprange: %d map-range sites rewritten\n", total)
	if total == 0 {
		fmt.Fprintln(os.Stderr, "maprange: no site found - type checking failed?")
		os.Exit(1)
	}
}
